#!/venv/bin/python
"""Validate a seeded change and run checks against it.

  try_mutant.py validate <dir>           # in a scratch worktree: suite still passes, demo fails with / passes without
  try_mutant.py run <dir> Cxx [Cyy …]    # apply <dir>/patch.diff to /repo, run the quick checks, undo

<dir> contains patch.diff, demo.py, meta.json.
"""
import json
import os
import subprocess
import sys
import tempfile

REPO = "/repo"
VERIF = os.path.dirname(os.path.dirname(os.path.abspath(__file__)))
PY = "/venv/bin/python"


def sh(cmd, cwd=None, env=None, timeout=3600):
    p = subprocess.run(cmd, shell=True, cwd=cwd, env=env, capture_output=True, text=True, timeout=timeout)
    return p.returncode, (p.stdout + p.stderr)


def validate(d):
    d = os.path.abspath(d)
    wt = tempfile.mkdtemp(prefix="mutval_", dir="/tmp")
    os.rmdir(wt)
    out = {}
    try:
        rc, o = sh(f"git -C {REPO} worktree add --detach {wt} HEAD")
        assert rc == 0, o
        env = dict(os.environ, PYTHONPATH=wt)
        rc, o = sh(f"{PY} {d}/demo.py", cwd=wt, env=env, timeout=900)
        out["demo_without"] = rc
        rc, o = sh(f"git apply {d}/patch.diff", cwd=wt)
        assert rc == 0, "patch does not apply: " + o
        rc, o = sh(f"{PY} {d}/demo.py", cwd=wt, env=env, timeout=900)
        out["demo_with"] = rc
        out["demo_output"] = o[-600:]
        rc, o = sh(f"{PY} -m pytest -q -p no:cacheprovider --timeout=900 --continue-on-collection-errors 2>&1 | tail -1",
                   cwd=wt, env=env, timeout=1800)
        out["suite"] = o.strip()
        out["ok"] = out["demo_without"] == 0 and out["demo_with"] == 1 and "171 passed" in out["suite"] \
            and "failed" not in out["suite"]
    finally:
        sh(f"git -C {REPO} worktree remove --force {wt}")
    print(json.dumps(out, indent=1))
    return 0 if out.get("ok") else 1


def run(d, props):
    d = os.path.abspath(d)
    rc, o = sh("git status --porcelain", cwd=REPO)
    assert o.strip() == "", "/repo working tree is not clean"
    rc, o = sh(f"git apply {d}/patch.diff", cwd=REPO)
    assert rc == 0, "patch does not apply: " + o
    res = {}
    try:
        for p in props:
            rc, o = sh(f"{PY} check.py {p} --tier quick", cwd=VERIF, timeout=3600)
            lines = [l for l in o.split("\n") if l.startswith("VIOLATION") or l.startswith(p + " ")]
            res[p] = {"rc": rc, "lines": lines}
            print(p, "rc=%d" % rc, *lines, sep="\n  ")
    finally:
        sh("git checkout -- . && git clean -fdq netqasm", cwd=REPO)
        # evidence written while a seeded change was applied must not be kept
        sh("git checkout -- evidence lean/NetqasmVerif/Gen", cwd=VERIF)
    return res


if __name__ == "__main__":
    if sys.argv[1] == "validate":
        sys.exit(validate(sys.argv[2]))
    elif sys.argv[1] == "run":
        run(sys.argv[2], sys.argv[3:])
