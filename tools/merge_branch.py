#!/venv/bin/python
"""merge_branch.py <branch>: merge an agent branch into main, resolving the three shared
append-only files (Driver/Main.lean, NetqasmVerif.lean, known_findings.json) by union."""
import json
import os
import re
import subprocess
import sys

ROOT = os.path.dirname(os.path.dirname(os.path.abspath(__file__)))
MAIN = "lean/NetqasmVerif/Driver/Main.lean"
ROOTLEAN = "lean/NetqasmVerif.lean"
KF = "known_findings.json"


def git(*a, check=True):
    p = subprocess.run(["git"] + list(a), cwd=ROOT, capture_output=True, text=True)
    if check and p.returncode != 0:
        raise RuntimeError(p.stdout + p.stderr)
    return p.stdout


def show(ref, path):
    p = subprocess.run(["git", "show", f"{ref}:{path}"], cwd=ROOT, capture_output=True, text=True)
    return p.stdout if p.returncode == 0 else None


def union_lines(a, b):
    out = list(a)
    for x in b:
        if x not in out:
            out.append(x)
    return out


def merge_main(ours, theirs):
    imp = union_lines(re.findall(r"^import \S+$", ours, re.M), re.findall(r"^import \S+$", theirs, re.M))

    def handlers(t):
        m = re.search(r"def handlers[^\n]*:=\s*\[(.*?)\]", t, re.S)
        return [h.strip() for h in m.group(1).split(",") if h.strip()]

    hs = union_lines(handlers(ours), handlers(theirs))
    body = re.sub(r"^import \S+\n", "", ours, flags=re.M)
    body = re.sub(r"def handlers[^\n]*:=\s*\[.*?\]", "def handlers : List (String → Json → Option Json) := [\n  "
                  + ",\n  ".join(hs) + "]", body, flags=re.S)
    return "\n".join(imp) + "\n" + body


def merge_root(ours, theirs):
    return "\n".join(union_lines([l for l in ours.split("\n") if l.strip()],
                                 [l for l in theirs.split("\n") if l.strip()])) + "\n"


def merge_kf(ours, theirs):
    a, b = json.loads(ours), json.loads(theirs)
    keys = {(f["id"], f["property"]) for f in a["findings"]}
    for f in b["findings"]:
        if (f["id"], f["property"]) not in keys:
            a["findings"].append(f)
            keys.add((f["id"], f["property"]))
    a["fixed"] = union_lines(a.get("fixed", []), b.get("fixed", []))
    return json.dumps(a, indent=1, ensure_ascii=False) + "\n"


def main():
    br = sys.argv[1]
    p = subprocess.run(["git", "merge", "--no-commit", "--no-ff", br], cwd=ROOT, capture_output=True, text=True)
    print(p.stdout[-1500:], p.stderr[-500:])
    for path, fn in ((MAIN, merge_main), (ROOTLEAN, merge_root), (KF, merge_kf)):
        ours, theirs = show("HEAD", path), show(br, path)
        if ours is None or theirs is None:
            continue
        with open(os.path.join(ROOT, path), "w") as f:
            f.write(fn(ours, theirs))
        git("add", path)
    st = git("status", "--porcelain")
    conflicts = [l for l in st.split("\n") if l[:2] in ("UU", "AA", "DU", "UD")]
    if conflicts:
        print("REMAINING CONFLICTS:\n" + "\n".join(conflicts))
        return 1
    git("commit", "-q", "-m", f"merge {br}")
    print("merged", br)
    return 0


if __name__ == "__main__":
    sys.exit(main())
