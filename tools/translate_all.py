#!/venv/bin/python
"""Runs every translator (data from /repo -> lean/NetqasmVerif/Gen/*.lean)."""
import importlib
import os
import sys
import traceback

ROOT = os.path.dirname(os.path.dirname(os.path.abspath(__file__)))
sys.path.insert(0, ROOT)
rc = 0
for fn in sorted(os.listdir(os.path.join(ROOT, "translate"))):
    if fn.endswith(".py") and not fn.startswith("_"):
        try:
            importlib.import_module("translate." + fn[:-3]).generate()
            print("translated", fn)
        except Exception:
            traceback.print_exc()
            rc = 1
sys.exit(rc)
