#!/venv/bin/python
"""gen_mutant_prompts.py <round> <k1> <k2> [C08:<k1>,<k2>]: write /tmp/mut/prompt<round>_Cxx.txt for fresh
seeding agents (they get the property text, a scratch worktree recipe and one-line summaries of earlier
seeded changes to avoid; nothing from /verif)."""
import glob, json, os, sys
rnd, k1, k2 = sys.argv[1], sys.argv[2], sys.argv[3]
over = {}
for a in sys.argv[4:]:
    p, ks = a.split(":"); over[p] = ks.split(",")
ROOT = os.path.dirname(os.path.dirname(os.path.abspath(__file__)))
props = [json.loads(l) for l in open(os.path.join(ROOT, "properties.jsonl"))]
kf = json.load(open(os.path.join(ROOT, "known_findings.json")))
ORD = {"6": "SIXTH", "7": "SEVENTH", "8": "EIGHTH", "9": "NINTH"}
for p in props:
    pid = p["id"]
    a, b = over.get(pid, [k1, k2])
    wt = f"/tmp/mut/{pid}g{rnd}"
    priors = []
    for d in sorted(glob.glob(os.path.join(ROOT, "seeded", pid + "_*")) + glob.glob(f"/tmp/mut/out/{pid}_*")):
        try:
            m = json.load(open(os.path.join(d, "meta.json")))
        except Exception:
            continue
        s = " ".join(str(m.get("summary", "")).split())[:140]
        if s and s not in priors:
            priors.append(s)
    openf = [f for f in kf["findings"] if f["property"] == pid]
    files = ", ".join(p["anchors"]["files"])
    txt = f"""You are testing how well a Python project's safety net catches subtle regressions. The project is QuTech-Delft/netqasm (a quantum-network instruction set + Python SDK + base executor). Its source is the git repository /repo. DO NOT touch /repo's working tree itself and DO NOT look at /verif (it is off limits for this task). Work only in your own scratch worktree: run `git -C /repo worktree add --detach {wt} HEAD` and work inside {wt} (python: /venv/bin/python; make the worktree importable with `PYTHONPATH={wt}`; verify with `python -c "import netqasm; print(netqasm.__file__)"` that the worktree copy is the one imported).

Here is a semantic property the project is supposed to satisfy:

  ID: {pid}
  Title: {p['title']}
  Statement: {p['statement']}
  Quantified over: {p['quantifier']['text']}
  Relevant files: {files}

Your task: produce TWO independent, realistic source changes (as a careless or mistaken developer might make: an off-by-one, a swapped field, a wrong comparison, a missing case, an optimisation that is wrong in a corner, a refactoring that loses a step, two cooperating sites that each look fine alone …) to netqasm (files under netqasm/, not tests) such that, for EACH change separately:
  1. the package still imports and the existing test-suite still passes exactly as before: run `cd {wt} && /venv/bin/python -m pytest -q -p no:cacheprovider --timeout=900 --continue-on-collection-errors 2>&1 | tail -3` — the baseline on the unchanged tree is `171 passed … 21 errors` (the 21 collection errors are pre-existing: missing optional simulator; they are expected) — and it must be the same with your change;
  2. the property above is violated by the changed code, but ONLY under something specific — a particular interleaving, a multi-step sequence of operations, an unusual-but-legal input (boundary value, particular operand combination, particular flavour/config), a crash/fault at a particular point, or two cooperating sites — NOT something that ordinary use or a trivial smoke test would expose at once;
  3. you provide a small stand-alone demonstration script `demo.py` (plain Python, run as `PYTHONPATH=<tree> /venv/bin/python demo.py`, exit code 0 = property holds on that input, exit code 1 = property violated, printing what it observed) that exits 1 on the changed tree and exits 0 on the unchanged tree. The demo must exercise the REAL netqasm code, through its public or semi-public API.
The two changes should break the property through DIFFERENT mechanisms/locations. Avoid changes that merely raise exceptions everywhere or that break unrelated functionality; prefer silent wrong behaviour. The violation must be of THIS property as stated (not merely of a neighbouring concern).

Deliver, for k = {a}, {b}, a directory /tmp/mut/out/{pid}_k/ (i.e. {pid}_{a} and {pid}_{b}) containing: `patch.diff` (output of `git diff` in your worktree for that change alone, applicable with `git apply` on /repo's HEAD), `demo.py`, and `meta.json` with keys: property ("{pid}"), commit_message, summary (what the change does), needs (what specific circumstance is required for the violation to manifest), ran (the commands you ran and their observed results: test-suite tail with and without the change, demo exit codes with and without the change). Reset your worktree between the two changes with `git checkout -- .` (never use `git stash`: the stash is shared between all worktrees of /repo and other people are working in parallel). When finished remove your worktree: `git -C /repo worktree remove --force {wt}`. Final answer: a short summary of the two changes and where the files are.

This is a {ORD.get(rnd, rnd + 'th')} round. Aim for REALISTIC regressions of the kind that really happen in maintenance (a refactoring that loses one case, an optimisation wrong in a corner, a bug fix for one path that breaks a neighbouring path, an API extension whose default changes old behaviour in one configuration, a wrong boundary, swapped similar names, an error path that forgets to undo something, a 'cleanup' that merges two almost-identical code paths, a cache with an incomplete key or missing invalidation, a resource/size assumption that breaks for large or degenerate inputs, behaviour that now depends on a process-wide setting / environment variable / feature flag, a new optional parameter whose default is wrong for one caller, an isinstance test broadened or narrowed, an error path that swallows an exception and carries on, a decorator or logging fast path that skips a step, a deprecation shim that forwards to the wrong function). Each must be plausible as a single pull request with a sensible-looking commit message. Look for code in the property's files that earlier rounds did NOT touch: read the files end to end first and list the functions involved in the property, including helpers in OTHER modules that the anchored code calls; then pick locations and mechanisms not mentioned below. Earlier rounds (all detected by the project's checks by now):
""" + "\n".join("  - " + s for s in priors)
    if openf:
        txt += "\n\nKnown, still-open defects of the unchanged tree for this property (do NOT re-use them; your demo must exit 0 on the unchanged tree):\n" + \
            "\n".join("  - " + " ".join(str(f.get("what", "")).split())[:300] for f in openf)
    open(f"/tmp/mut/prompt{rnd}_{pid}.txt", "w").write(txt + "\n")
    print(pid, len(priors), len(txt))
