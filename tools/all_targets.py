#!/venv/bin/python
"""Prints the lake targets of all plug-ins (for setup.sh)."""
import importlib, os, sys
ROOT = os.path.dirname(os.path.dirname(os.path.abspath(__file__)))
sys.path.insert(0, ROOT)
t = []
for fn in sorted(os.listdir(os.path.join(ROOT, "checks"))):
    if fn.startswith("c") and fn.endswith(".py"):
        m = importlib.import_module("checks." + fn[:-3])
        for x in list(getattr(m, "TARGETS", [])) + list(getattr(m, "LEANCHECK_EXTRA", [])):
            if x not in t:
                t.append(x)
print(" ".join(t))
