#!/bin/bash
# Full regression of every kept seeded change against the current checks.
#   tools/regress.sh [--validate] [id-glob]
# For each seeded/<id>: apply patch.diff to /repo, run the quick check of its property, undo.
# --validate additionally re-validates the change in a scratch worktree (suite passes, demo fails with
# the patch and passes without). Prints one line per change; a line without VIOLATION is a miss.
cd "$(dirname "$0")/.."
VAL=0; [ "$1" = "--validate" ] && { VAL=1; shift; }
GLOB=${1:-*}
for d in seeded/$GLOB/; do
  id=$(basename $d); p=$(python3 -c "import json;print(json.load(open('$d/meta.json'))['property'])")
  v=-
  [ $VAL = 1 ] && v=$(/venv/bin/python tools/try_mutant.py validate $d 2>&1 | grep -E '"ok"' | grep -c true)
  r=$(/venv/bin/python tools/try_mutant.py run $d $p 2>&1 | grep -E "VIOLATION property|patch does not apply" | head -1)
  echo "$id valid=$v $r"
done
