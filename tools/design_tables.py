#!/venv/bin/python
"""Regenerates the generated tables of DESIGN.md §0.3 (findings) and §0.4 (seeded changes)
from known_findings.json and seeded/*/meta.json."""
import json, os, re, glob
ROOT = os.path.dirname(os.path.dirname(os.path.abspath(__file__)))
kf = json.load(open(os.path.join(ROOT, "known_findings.json")))
L = []
L.append("Open known findings (the check prints `KNOWN-FINDING:` while the witness still fails):\n")
L.append("| id | property | what fails | why not repaired |")
L.append("|---|---|---|---|")
for f in kf["findings"]:
    why = f.get("why_not_fixed") or f.get("why") or ""
    L.append("| %s | %s | %s | %s |" % (f["id"], f["property"], f["what"].replace("|", "/")[:400], str(why).replace("|", "/")[:300]))
L.append("\nRepaired in `/repo` (one `fix:` commit each; the check reports the violation again if it returns):\n")
for line in kf["fixed"]:
    L.append("* " + line.replace("fixed: ", ""))
findings = "\n".join(L)
S = ["| seeded id | breaks | what the change does | needs | caught by |", "|---|---|---|---|---|"]
for d in sorted(glob.glob(os.path.join(ROOT, "seeded", "*"))):
    m = json.load(open(os.path.join(d, "meta.json")))
    def cell(x):
        return str(x).replace("|", "/").replace("\n", " ")[:330]
    S.append("| %s | %s | %s | %s | %s |" % (os.path.basename(d), m.get("property"), cell(m.get("summary", "")), cell(m.get("needs", "")), cell(m.get("detected_by", ""))))
seeded = "\n".join(S)
import importlib, sys
sys.path.insert(0, ROOT)
P = []
for fn in sorted(os.listdir(os.path.join(ROOT, "checks"))):
    if not (fn.startswith("c") and fn.endswith(".py")):
        continue
    m = importlib.import_module("checks." + fn[:-3])
    pid = fn[:-3].upper()
    P.append(f"**{pid}** — {len(m.THEOREMS)} audited theorems/obligations; targets `{' '.join(m.TARGETS)}`; "
             f"translators: {', '.join(getattr(m, 'TRANSLATORS', [])) or '—'}.\n\n"
             f"*Claim.* {m.LEVEL_TEXT}\n\n*Trusted / assumed.* {m.LEVEL_NOTE}\n"
             + ("\n*Trusted base (as written into the evidence).* " + " · ".join(getattr(m, "TRUSTED", [])) + "\n" if getattr(m, "TRUSTED", None) else "")
             + ("\n*Assumptions.* " + " · ".join(getattr(m, "ASSUMPTIONS", [])) + "\n" if getattr(m, "ASSUMPTIONS", None) else ""))
perprop = "\n".join(P)
p = os.path.join(ROOT, "DESIGN.md")
s = open(p).read()
def put(s, tag, body):
    a, b = f"<!-- BEGIN {tag} -->", f"<!-- END {tag} -->"
    return re.sub(re.escape(a) + ".*?" + re.escape(b), a + "\n" + body + "\n" + b, s, flags=re.S)
s = put(s, "findings", findings)
s = put(s, "seeded", seeded)
s = put(s, "perprop", perprop)
open(p, "w").write(s)
print("ok")
