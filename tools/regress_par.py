#!/venv/bin/python
"""Parallel regression of the seeded changes against the committed checks.

  tools/regress_par.py [--lanes N] [--src DIR] [id ...]

Each lane gets its own scratch worktree of /verif (HEAD, with a copy of the lake build cache) and of /repo (HEAD)
under /tmp/regress_lane<k>; a seeded change is applied to the lane's /repo copy (never to /repo itself), the quick
check of its property runs in the lane's /verif copy with NETQASM_REPO pointing at the lane's copy, and the change
is undone. One line per change: `<id> <property> CAUGHT|WEAK|MISSED|ERROR <detail>`. Lanes are removed at the end.
Uncommitted changes of /verif are not seen by the lanes.
"""
import json
import os
import queue
import shutil
import subprocess
import sys
import threading

VERIF = os.path.dirname(os.path.dirname(os.path.abspath(__file__)))
REPO = "/repo"
PY = "/venv/bin/python"


def sh(cmd, cwd=None, env=None, timeout=3600):
    try:
        p = subprocess.run(cmd, shell=True, cwd=cwd, env=env, capture_output=True, text=True, timeout=timeout)
        return p.returncode, p.stdout + p.stderr
    except subprocess.TimeoutExpired:
        return 124, "timeout"


def lane_setup(k):
    base = f"/tmp/regress_lane{k}"
    lane_teardown(k)
    os.makedirs(base)
    rc, o = sh(f"git -C {VERIF} worktree add --detach {base}/verif HEAD")
    assert rc == 0, o
    shutil.copytree(os.path.join(VERIF, "lean", ".lake"), f"{base}/verif/lean/.lake", symlinks=True)
    rc, o = sh(f"git -C {REPO} worktree add --detach {base}/repo HEAD")
    assert rc == 0, o
    return base


def lane_teardown(k):
    base = f"/tmp/regress_lane{k}"
    if os.path.exists(base):
        sh(f"git -C {VERIF} worktree remove --force {base}/verif")
        sh(f"git -C {REPO} worktree remove --force {base}/repo")
        shutil.rmtree(base, ignore_errors=True)
    sh(f"git -C {VERIF} worktree prune; git -C {REPO} worktree prune")


def run_one(base, src, sid):
    d = os.path.join(src, sid)
    prop = json.load(open(os.path.join(d, "meta.json")))["property"]
    repo, verif = f"{base}/repo", f"{base}/verif"
    rc, o = sh(f"git apply {d}/patch.diff", cwd=repo)
    if rc != 0:
        return prop, "ERROR", "patch does not apply: " + o.strip()[:200]
    try:
        env = dict(os.environ, NETQASM_REPO=repo)
        rc, o = sh(f"{PY} check.py {prop} --tier quick", cwd=verif, env=env, timeout=2400)
    finally:
        sh("git checkout -- . && git clean -fdq netqasm", cwd=repo)
        sh("git checkout -- evidence lean/NetqasmVerif/Gen", cwd=verif)
    vio = [l for l in o.split("\n") if l.startswith("VIOLATION")]
    if rc == 1 and vio:
        return prop, ("WEAK" if vio[0].endswith("no-failing-input-found") else "CAUGHT"), vio[0]
    if rc == 0:
        return prop, "MISSED", ""
    return prop, "ERROR", f"rc={rc} " + o.strip()[-300:].replace("\n", " | ")


def main():
    args = sys.argv[1:]
    lanes, src = 6, os.path.join(VERIF, "seeded")
    while args and args[0].startswith("--"):
        if args[0] == "--lanes":
            lanes = int(args[1])
        elif args[0] == "--src":
            src = args[1]
        args = args[2:]
    ids = args or sorted(os.listdir(src))
    ids = [i for i in ids if os.path.exists(os.path.join(src, i, "patch.diff"))]
    q = queue.Queue()
    for i in ids:
        q.put(i)
    lock = threading.Lock()
    tally = {}

    setup_lock = threading.Lock()

    def worker(k):
        with setup_lock:  # `git worktree add` must not run concurrently in one repository
            base = lane_setup(k)
        try:
            while True:
                try:
                    sid = q.get_nowait()
                except queue.Empty:
                    return
                try:
                    prop, verdict, detail = run_one(base, src, sid)
                except Exception as e:  # noqa: BLE001
                    prop, verdict, detail = "?", "ERROR", f"{type(e).__name__}: {e}"
                with lock:
                    tally[verdict] = tally.get(verdict, 0) + 1
                    print(f"{sid} {prop} {verdict} {detail}", flush=True)
        finally:
            lane_teardown(k)

    ts = [threading.Thread(target=worker, args=(k,)) for k in range(min(lanes, len(ids)))]
    for t in ts:
        t.start()
    for t in ts:
        t.join()
    print("SUMMARY", json.dumps(tally, sort_keys=True))
    return 0 if set(tally) <= {"CAUGHT"} else 1


if __name__ == "__main__":
    sys.exit(main())
