"""In-process pipeline SDK -> serialised bytes -> real base `Executor` subclass, with a numpy
state-vector (or trace-only) back end. No source hooks: only documented extension points of
`Executor` and `BaseNetQASMConnection` are overridden (DESIGN §3.4).

Used by C20 (toolbox): the translator records the quantum-level event trace the controller sees,
the oracle runs the circuits on arbitrary input states with forced measurement outcomes."""
import math

import numpy as np

from vlib import common

I2 = np.eye(2, dtype=complex)
SX = np.array([[0, 1], [1, 0]], dtype=complex)
SY = np.array([[0, -1j], [1j, 0]], dtype=complex)
SZ = np.array([[1, 0], [0, -1]], dtype=complex)
FIXED = {"x": SX, "y": SY, "z": SZ, "h": (SX + SZ) / math.sqrt(2), "k": (SY + SZ) / math.sqrt(2),
         "s": np.array([[1, 0], [0, 1j]], dtype=complex),
         "t": np.array([[1, 0], [0, np.exp(1j * math.pi / 4)]], dtype=complex)}
AXIS = {"x": SX, "y": SY, "z": SZ}


def rot(axis, theta):
    return math.cos(theta / 2) * I2 - 1j * math.sin(theta / 2) * AXIS[axis]


class ExtraQubitsEntangled(RuntimeError):
    pass


class StateVector:
    """pure state of the live physical qubits; tensor of shape (2,)*k, axes in `order`"""

    def __init__(self):
        self.order = []  # physical ids, axis i <-> order[i]
        self.psi = np.ones((), dtype=complex)

    def add(self, phys):
        if phys in self.order:
            raise RuntimeError(f"physical qubit {phys} initialised twice")
        zero = np.array([1, 0], dtype=complex)
        self.psi = np.tensordot(self.psi, zero, axes=0)
        self.order.append(phys)

    def apply1(self, m, phys):
        ax = self.order.index(phys)
        self.psi = np.moveaxis(np.tensordot(m, self.psi, axes=([1], [ax])), 0, ax)

    def apply_ctrl(self, m0, m1, c, t):
        ac, at = self.order.index(c), self.order.index(t)
        idx0 = [slice(None)] * self.psi.ndim
        idx1 = list(idx0)
        idx0[ac], idx1[ac] = 0, 1
        new = np.empty_like(self.psi)
        at_red = at - (1 if ac < at else 0)
        for idx, m in ((tuple(idx0), m0), (tuple(idx1), m1)):
            sub = self.psi[idx]
            new[idx] = np.moveaxis(np.tensordot(m, sub, axes=([1], [at_red])), 0, at_red)
        self.psi = new

    def probs(self, phys):
        ax = self.order.index(phys)
        p = np.sum(np.abs(np.moveaxis(self.psi, ax, 0).reshape(2, -1)) ** 2, axis=1)
        return float(p[0]), float(p[1])

    def project(self, phys, outcome):
        ax = self.order.index(phys)
        idx = [slice(None)] * self.psi.ndim
        idx[ax] = 1 - outcome
        self.psi[tuple(idx)] = 0
        nrm = np.linalg.norm(self.psi)
        if nrm < 1e-12:
            raise RuntimeError("forced a measurement outcome of probability 0")
        self.psi = self.psi / nrm

    def remove(self, phys):
        """remove a qubit that is in a product state with the rest (after a measurement)"""
        ax = self.order.index(phys)
        moved = np.moveaxis(self.psi, ax, 0)
        n0, n1 = np.linalg.norm(moved[0]), np.linalg.norm(moved[1])
        if min(n0, n1) > 1e-9:
            # not a computational-basis product state: factor it out if it is a product at all
            flat = moved.reshape(2, -1)
            u, s, vh = np.linalg.svd(flat, full_matrices=False)
            if s[1] > 1e-9:
                raise RuntimeError("freeing a qubit that is entangled with the rest")
            rest = (s[0] * vh[0]).reshape(moved.shape[1:])
        else:
            rest = moved[0] if n0 >= n1 else moved[1]
        self.psi = rest / np.linalg.norm(rest)
        self.order.pop(ax)

    def vector(self, phys_list):
        """state as a flat vector with the given qubit order (first = most significant)"""
        if sorted(phys_list) != sorted(self.order):
            extra = [p for p in self.order if p not in phys_list]
            if extra and all(p in self.order for p in phys_list):
                # other qubits are still live (e.g. an ancilla that was kept): return the state of
                # the requested qubits if it factors out, else report the entanglement
                axes = [self.order.index(p) for p in phys_list] + [self.order.index(p) for p in extra]
                flat = np.transpose(self.psi, axes).reshape(2 ** len(phys_list), -1)
                u, sv, vh = np.linalg.svd(flat, full_matrices=False)
                if len(sv) > 1 and sv[1] > 1e-9:
                    raise ExtraQubitsEntangled(f"live qubits {self.order}, asked for {phys_list}: entangled")
                return u[:, 0] * sv[0] / np.linalg.norm(u[:, 0] * sv[0])
            raise RuntimeError(f"live qubits {self.order}, asked for {phys_list}")
        axes = [self.order.index(p) for p in phys_list]
        return np.transpose(self.psi, axes).reshape(-1)

    def set_vector(self, phys_list, vec):
        if sorted(phys_list) != sorted(self.order):
            raise RuntimeError(f"live qubits {self.order}, asked for {phys_list}")
        self.order = list(phys_list)
        self.psi = np.array(vec, dtype=complex).reshape((2,) * len(phys_list))


def make_classes():
    common.use_repo()
    from netqasm.backend.executor import Executor
    from netqasm.backend.messages import (InitNewAppMessage, OpenEPRSocketMessage, SignalMessage,
                                          StopAppMessage, SubroutineMessage, deserialize_host_msg)
    from netqasm.lang.instr import core
    from netqasm.lang.instr.flavour import NVFlavour, VanillaFlavour
    from netqasm.lang.parsing import deserialize as deserialize_subroutine
    from netqasm.sdk.connection import BaseNetQASMConnection, DebugConnection, DebugNetworkInfo

    class SVExecutor(Executor):
        """real executor; quantum hooks drive a numpy state vector and record a trace.
        `script`: forced measurement outcomes (consumed in order; when exhausted the more
        probable outcome is taken). Every measurement's (p0, p1) is recorded."""

        def __init__(self, name="verif-node", simulate=True):
            super().__init__(name=name)
            self.sv = StateVector()
            self.simulate = simulate
            self.trace = []  # (mnemonic, [virtual addresses], n, d) / ("meas", [addr], outcome, 0)
            self.script = []
            self.meas_probs = []

        @property
        def node_id(self):
            return 0

        def _phys(self, subroutine_id, address):
            return self._get_position(subroutine_id=subroutine_id, address=address)

        def _do_single_qubit_instr(self, instr, subroutine_id, address):
            phys = self._phys(subroutine_id, address)
            if isinstance(instr, core.InitInstruction):
                self.trace.append(("init", [address], 0, 0))
                if self.simulate:
                    self.sv.add(phys)
                return None
            mn = instr.mnemonic
            self.trace.append((mn, [address], 0, 0))
            if self.simulate:
                self.sv.apply1(FIXED[mn], phys)
            return None

        def _do_single_qubit_rotation(self, instr, subroutine_id, address, angle):
            phys = self._phys(subroutine_id, address)
            self.trace.append((instr.mnemonic, [address], instr.angle_num.value, instr.angle_denom.value))
            if self.simulate:
                self.sv.apply1(rot(instr.mnemonic[-1], angle), phys)
            return None

        def _do_controlled_qubit_rotation(self, instr, subroutine_id, address1, address2, angle):
            p1, p2 = self._phys(subroutine_id, address1), self._phys(subroutine_id, address2)
            self.trace.append((instr.mnemonic, [address1, address2], instr.angle_num.value,
                               instr.angle_denom.value))
            if self.simulate:
                ax = instr.mnemonic[-1]
                self.sv.apply_ctrl(rot(ax, angle), rot(ax, -angle), p1, p2)
            return None

        def _do_two_qubit_instr(self, instr, subroutine_id, address1, address2):
            p1, p2 = self._phys(subroutine_id, address1), self._phys(subroutine_id, address2)
            mn = instr.mnemonic
            self.trace.append((mn, [address1, address2], 0, 0))
            if self.simulate:
                if mn == "cnot":
                    self.sv.apply_ctrl(I2, SX, p1, p2)
                elif mn == "cphase":
                    self.sv.apply_ctrl(I2, SZ, p1, p2)
                else:
                    raise RuntimeError(f"two-qubit instruction {mn} not supported by the back end")
            return None

        def _do_meas(self, subroutine_id, q_address):
            phys = self._phys(subroutine_id, q_address)
            if self.simulate:
                p0, p1 = self.sv.probs(phys)
            else:
                p0, p1 = 0.5, 0.5
            self.meas_probs.append((p0, p1))
            if self.script:
                outcome = self.script.pop(0)
            else:
                outcome = 0 if p0 >= p1 else 1
            if self.simulate:
                self.sv.project(phys, outcome)
            self.trace.append(("meas", [q_address], outcome, 0))
            return outcome

        def _allocate_physical_qubit(self, subroutine_id, virtual_address, physical_address=None):
            self.trace.append(("qalloc", [virtual_address], 0, 0))
            return super()._allocate_physical_qubit(subroutine_id, virtual_address, physical_address)

        def _free_physical_qubit(self, subroutine_id, address):
            self.trace.append(("qfree", [address], 0, 0))
            yield from super()._free_physical_qubit(subroutine_id, address)

        def _clear_phys_qubit_in_memory(self, physical_address):
            if self.simulate and physical_address in self.sv.order:
                self.sv.remove(physical_address)
            yield None

    class PipeConnection(BaseNetQASMConnection):
        """host side: every message is serialised, then decoded and executed in-process"""

        def __init__(self, executor, nv=False, **kwargs):
            self._executor = executor
            self._nv = nv
            self.raw_messages = []
            DebugConnection.node_ids[executor.name] = 0
            super().__init__(app_name=executor.name, node_name=executor.name, **kwargs)

        def _get_network_info(self):
            return DebugNetworkInfo

        def _commit_serialized_message(self, raw_msg, block=True, callback=None):
            self.raw_messages.append(raw_msg)
            msg = deserialize_host_msg(raw_msg)
            ex = self._executor
            if isinstance(msg, InitNewAppMessage):
                ex.init_new_application(app_id=msg.app_id, max_qubits=msg.max_qubits)
            elif isinstance(msg, SubroutineMessage):
                flavour = NVFlavour() if self._nv else VanillaFlavour()
                sub = deserialize_subroutine(msg.subroutine, flavour=flavour)
                list(ex.execute_subroutine(sub))
            elif isinstance(msg, StopAppMessage):
                list(ex.stop_application(app_id=msg.app_id))
            elif isinstance(msg, (OpenEPRSocketMessage, SignalMessage)):
                pass
            else:
                raise RuntimeError(f"unexpected host message {msg}")

    return SVExecutor, PipeConnection


_CLASSES = None


def classes():
    global _CLASSES
    if _CLASSES is None:
        _CLASSES = make_classes()
    return _CLASSES


def reset_globals():
    common.use_repo()
    from netqasm.sdk.connection import BaseNetQASMConnection
    from netqasm.sdk.shared_memory import SharedMemoryManager
    SharedMemoryManager.reset_memories()
    BaseNetQASMConnection._app_ids.clear()
    if hasattr(BaseNetQASMConnection, "_app_names"):
        BaseNetQASMConnection._app_names.clear()


class Session:
    """one connection + executor; `qubits(k)` allocates k qubits and flushes, so that the state
    can be replaced by an arbitrary input state before the code under test runs"""

    def __init__(self, simulate=True, max_qubits=8, nv=False):
        """`nv`: the connection compiles with NVSubroutineTranspiler and the controller decodes the NV flavour
        (generic hardware config, as tests/test_transpiling.py does)"""
        reset_globals()
        SVExecutor, PipeConnection = classes()
        self.ex = SVExecutor(simulate=simulate)
        if nv:
            from netqasm.sdk.transpile import NVSubroutineTranspiler
            self.conn = PipeConnection(self.ex, nv=True, max_qubits=max_qubits, compiler=NVSubroutineTranspiler)
        else:
            self.conn = PipeConnection(self.ex, max_qubits=max_qubits)
        self.qs = []

    def qubits(self, k):
        from netqasm.sdk.qubit import Qubit
        self.qs = [Qubit(self.conn) for _ in range(k)]
        self.conn.flush()
        self.ex.trace.clear()
        self.ex.meas_probs.clear()
        return self.qs

    def phys_of(self, qubit):
        return self.ex._get_position(app_id=self.conn.app_id, address=qubit.qubit_id)

    def set_state(self, vec):
        self.ex.sv.set_vector([self.phys_of(q) for q in self.qs], vec)

    def state(self):
        return self.ex.sv.vector([self.phys_of(q) for q in self.qs])

    def flush(self):
        self.conn.flush()

    def close(self):
        try:
            self.conn.close()
        except Exception:
            pass
