"""Real-code side of the codec / text streams: conversion between netqasm
instruction objects and the JSON form the Lean driver speaks, and generators."""
import dataclasses

from vlib import common

common.use_repo()
from netqasm.lang import operand as op  # noqa: E402
from netqasm.lang.encoding import RegisterName  # noqa: E402
from netqasm.lang.instr import flavour as fl  # noqa: E402
from netqasm.lang.parsing.binary import Deserializer  # noqa: E402
from netqasm.lang.subroutine import Subroutine  # noqa: E402

from translate import instr_table as T  # noqa: E402

FLAVOURS = {"vanilla": fl.VanillaFlavour, "nv": fl.NVFlavour, "reids": fl.REIDSFlavour}

I32_MIN, I32_MAX = -(2 ** 31), 2 ** 31 - 1


def flavour_classes(name):
    f = FLAVOURS[name]()
    return list(fl.CORE_INSTRUCTIONS) + list(f.instrs)


_shape_cache = {}


def shape_of(c):
    if c not in _shape_cache:
        _shape_cache[c] = T.shape_of(c, op, RegisterName)
    return _shape_cache[c]


def class_by_name(name):
    for f in FLAVOURS:
        for c in flavour_classes(f):
            if T.cls_name(c) == name:
                return c
    raise KeyError(name)


# ---- JSON <-> objects --------------------------------------------------------

def reg_to_j(r):
    return [r.name.value, r.index]


def operand_to_json(o):
    if isinstance(o, op.Register):
        return {"r": reg_to_j(o)}
    if isinstance(o, op.Immediate):
        return {"i": o.value}
    if isinstance(o, op.Address):
        return {"a": o.address}
    if isinstance(o, op.ArrayEntry):
        return {"e": [o.address.address] + reg_to_j(o.index)}
    if isinstance(o, op.ArraySlice):
        return {"s": [o.address.address] + reg_to_j(o.start) + reg_to_j(o.stop)}
    raise TypeError(o)


def instr_to_json(i):
    return {"c": T.cls_name(type(i)), "o": [operand_to_json(o) for o in i.operands]}


def mk_reg(b, i):
    return op.Register(RegisterName(b), i)


def operand_from_json(j):
    if "r" in j:
        return mk_reg(*j["r"])
    if "i" in j:
        return op.Immediate(j["i"])
    if "a" in j:
        return op.Address(j["a"])
    if "e" in j:
        a, b, i = j["e"]
        return op.ArrayEntry(op.Address(a), mk_reg(b, i))
    if "s" in j:
        a, b0, i0, b1, i1 = j["s"]
        return op.ArraySlice(op.Address(a), mk_reg(b0, i0), mk_reg(b1, i1))
    raise ValueError(j)


def instr_from_json(j):
    c = class_by_name(j["c"])
    fs = T.operand_fields(c)
    return c(**{f.name: operand_from_json(o) for f, o in zip(fs, j["o"])})


# ---- real encode / decode ----------------------------------------------------

def real_encode(instr):
    """bytes as list, or None if the real code raises"""
    try:
        return list(bytes(instr.serialize()))
    except Exception:
        return None


def real_decode(flavour_name, raw):
    try:
        i = Deserializer(FLAVOURS[flavour_name]()).deserialize_command(bytes(raw))
        return i
    except Exception:
        return None


def real_encode_sub(instrs, app, version):
    try:
        return list(bytes(Subroutine(instructions=instrs, app_id=app, netqasm_version=version)))
    except Exception:
        return None


def real_decode_sub(flavour_name, raw):
    try:
        return Deserializer(FLAVOURS[flavour_name]()).deserialize_subroutine(bytes(raw))
    except Exception:
        return None


def real_decode_sub_fn(flavour_name, raw):
    """the public function `deserialize(data, flavour)` (a different entry point than the class)"""
    from netqasm.lang.parsing.binary import deserialize
    try:
        return deserialize(bytes(raw), flavour=FLAVOURS[flavour_name]())
    except Exception:
        return None


def mutate_operand_in_place(o, rng):
    """in-place edit of a mutable operand object (ArrayEntry / ArraySlice); returns True if edited"""
    if isinstance(o, op.ArrayEntry):
        if rng.random() < 0.5:
            o.index = mk_reg(rng.randrange(4), rng.randrange(16))
        else:
            o.address = op.Address(rng.choice(I32_BOUND))
        return True
    if isinstance(o, op.ArraySlice):
        k = rng.randrange(3)
        if k == 0:
            o.start = mk_reg(rng.randrange(4), rng.randrange(16))
        elif k == 1:
            o.stop = mk_reg(rng.randrange(4), rng.randrange(16))
        else:
            o.address = op.Address(rng.choice(I32_BOUND))
        return True
    return False


# ---- generators ---------------------------------------------------------------

REG_BOUND = [(0, 0), (3, 15), (1, 1), (2, 8), (3, 0), (0, 15), (2, 5), (1, 10)]
I32_BOUND = [0, 1, -1, -2, I32_MAX, I32_MIN, 255, 256, 65535, 65536, -256, 0x01020304, -0x01020304,
             0x7F000000, 0x00FF00FF]
U8_BOUND = [0, 1, 255, 128, 127, 2, 0x55, 0xAA]


def values_for(kind, rng, n_random):
    def regs():
        return [mk_reg(b, i) for b, i in REG_BOUND] + \
            [mk_reg(rng.randrange(4), rng.randrange(16)) for _ in range(n_random)]

    def i32s():
        return I32_BOUND + [1 << k for k in range(0, 31, 5)] + \
            [rng.randint(I32_MIN, I32_MAX) for _ in range(n_random)]

    if kind == "reg":
        return regs()
    if kind == "imm8":
        return [op.Immediate(v) for v in U8_BOUND + [rng.randrange(256) for _ in range(n_random)]]
    if kind == "int32":
        return [op.Immediate(v) for v in i32s()]
    if kind == "addr":
        return [op.Address(v) for v in i32s()]
    if kind == "entry":
        rs = regs()
        return [op.ArrayEntry(op.Address(v), rs[k % len(rs)]) for k, v in enumerate(i32s())]
    if kind == "slice":
        rs = regs()
        return [op.ArraySlice(op.Address(v), rs[k % len(rs)], rs[(3 * k + 1) % len(rs)])
                for k, v in enumerate(i32s())]
    raise ValueError(kind)


def instances_of(c, rng, n_random, per_class):
    """Instances of class c: each field cycles through its boundary list while the
    others take varying values (so every boundary value of every field occurs)."""
    fs = T.operand_fields(c)
    shape = shape_of(c)
    if not fs:
        return [c()]
    pools = [values_for(k, rng, n_random) for k in shape]
    n = max(len(p) for p in pools)
    out = []
    for t in range(max(n, per_class)):
        args = {}
        for j, f in enumerate(fs):
            p = pools[j]
            args[f.name] = p[(t + 3 * j * (t // len(p))) % len(p)] if t < n else rng.choice(p)
        out.append(c(**args))
    return out


def random_instr(flavour_name, rng):
    c = rng.choice(flavour_classes(flavour_name))
    fs = T.operand_fields(c)
    shape = shape_of(c)
    args = {f.name: rng.choice(values_for(k, rng, 2)) for f, k in zip(fs, shape)}
    return c(**args)


# ---- independent reference encoder (written from the statement of C02) ---------

def spec_reg(r):
    b, i = r
    return (b & 3) | ((i & 15) << 2)


def spec_le32(v):
    u = v & 0xFFFFFFFF
    return [u & 255, (u >> 8) & 255, (u >> 16) & 255, (u >> 24) & 255]


def spec_encode(opcode, shape, ops_json):
    body = []
    for k, o in zip(shape, ops_json):
        if k == "reg":
            body.append(spec_reg(o["r"]))
        elif k == "imm8":
            body.append(o["i"] & 255)
        elif k == "int32":
            body += spec_le32(o["i"])
        elif k == "addr":
            body += spec_le32(o["a"])
        elif k == "entry":
            body += spec_le32(o["e"][0]) + [spec_reg(o["e"][1:3])]
        elif k == "slice":
            body += spec_le32(o["s"][0]) + [spec_reg(o["s"][1:3]), spec_reg(o["s"][3:5])]
    return [opcode] + body + [0] * (6 - len(body))


def pinned_table():
    """The pinned wire table, read from Model/WireSpec.lean (single source)."""
    import os
    import re
    text = open(os.path.join(common.LEAN_DIR, "NetqasmVerif", "Model", "WireSpec.lean")).read()
    out = {}
    for name in ("core", "vanilla", "nv", "reids"):
        m = re.search(r"def %s : List Sig := \[(.*?)\]\s*(?:\n\n|\ndef|\Z)" % name, text, re.S)
        body = m.group(1) if m else ""
        rows = []
        for r in re.finditer(r'\((\d+), "([a-z_0-9]+)", \[([^\]]*)\]\)', body):
            shape = [k.strip().lstrip(".") for k in r.group(3).split(",") if k.strip()]
            rows.append((int(r.group(1)), r.group(2), shape))
        out[name] = rows
    return out


# ---- input buffer types and aliasing between the input buffer and the decoded objects ------------

def decode_buffer_alias_problem(flavour_name, raw, rng):
    """Decode the subroutine bytes `raw` from bytes / bytearray / memoryview inputs through both entry
    points, then overwrite the (writable) input buffer: every decode must equal the reference decode
    from `bytes`, before and after the overwrite.  None if fine, else a description."""
    from netqasm.lang.parsing.binary import deserialize
    ref = real_decode_sub(flavour_name, raw)
    if ref is None:
        return None
    want = [instr_to_json(i) for i in ref.instructions]
    for kind in ("bytearray", "memoryview-rw", "memoryview-ro", "bytes"):
        buf = bytearray(raw) if kind in ("bytearray", "memoryview-rw") else None
        arg = {"bytes": bytes(raw), "memoryview-ro": memoryview(bytes(raw)), "bytearray": buf,
               "memoryview-rw": memoryview(buf) if buf is not None else None}[kind]
        for entry in ("Deserializer", "deserialize"):
            try:
                if entry == "Deserializer":
                    sub = Deserializer(FLAVOURS[flavour_name]()).deserialize_subroutine(arg)
                else:
                    sub = deserialize(arg, flavour=FLAVOURS[flavour_name]())
                got = [instr_to_json(i) for i in sub.instructions]
            except Exception as e:
                return {"buffer": kind, "entry": entry, "what": "decoding raises for this input buffer type",
                        "exception": type(e).__name__ + ": " + str(e)[:100]}
            if got != want or sub.app_id != ref.app_id:
                return {"buffer": kind, "entry": entry, "what": "decode differs from the decode of the same bytes",
                        "reference": want[:4], "got": got[:4]}
            if buf is not None:
                how = rng.choice(["zeros", "ones", "random"])
                for k in range(len(buf)):
                    buf[k] = {"zeros": 0, "ones": 255, "random": rng.randrange(256)}[how]
                try:
                    after = [instr_to_json(i) for i in sub.instructions]
                    app_after = sub.app_id
                except Exception as e:
                    after, app_after = {"unreadable": type(e).__name__}, None
                if after != want or app_after != ref.app_id:
                    return {"buffer": kind, "entry": entry, "overwritten_with": how,
                            "what": "the decoded subroutine changed when the input buffer was overwritten",
                            "before": want[:4], "after": after if isinstance(after, dict) else after[:4]}
                buf[:] = bytes(raw)
    # single commands
    body = bytes(raw)[4:]
    for k in range(0, min(len(body), 35), 7):
        buf = bytearray(body[k:k + 7])
        try:
            a = Deserializer(FLAVOURS[flavour_name]()).deserialize_command(buf)
            before = instr_to_json(a)
            for j in range(7):
                buf[j] = 255 - buf[j]
            if instr_to_json(a) != before or before != want[k // 7]:
                return {"buffer": "bytearray", "entry": "deserialize_command", "what": "decoded instruction is not "
                        "the reference / changed when the input buffer was overwritten",
                        "before": before, "after": instr_to_json(a), "reference": want[k // 7]}
        except Exception as e:
            return {"buffer": "bytearray", "entry": "deserialize_command", "what": "raises",
                    "exception": type(e).__name__ + ": " + str(e)[:100]}
    return None


_ENV_VARS_CACHE = None


def source_env_vars():
    """Names of the environment variables that the package's source reads (os.environ[...], os.environ.get(...),
    os.getenv(...)), found by scanning netqasm/**/*.py of the tree under test (examples excluded)."""
    global _ENV_VARS_CACHE
    if _ENV_VARS_CACHE is not None:
        return _ENV_VARS_CACHE
    import os
    import re
    from vlib import common as _c
    root = os.path.join(_c.REPO, "netqasm")
    pat = re.compile(r"""(?:os\.environ(?:\.get)?\s*[\(\[]|os\.getenv\s*\(|environ(?:\.get)?\s*[\(\[])\s*["']([A-Za-z_][A-Za-z0-9_]*)["']""")
    names = set()
    for d, _dirs, files in os.walk(root):
        if os.sep + "examples" in d:
            continue
        for fn in files:
            if fn.endswith(".py"):
                try:
                    names.update(pat.findall(open(os.path.join(d, fn), errors="replace").read()))
                except OSError:
                    pass
    # constants such as SIMULATOR_ENV = "NETQASM_SIMULATOR" used as os.environ[SIMULATOR_ENV]
    const = re.compile(r"""^[A-Z_]+\s*=\s*["'](NETQASM_[A-Z0-9_]+)["']""", re.M)
    for d, _dirs, files in os.walk(root):
        if os.sep + "examples" in d:
            continue
        for fn in files:
            if fn.endswith(".py"):
                try:
                    names.update(const.findall(open(os.path.join(d, fn), errors="replace").read()))
                except OSError:
                    pass
    _ENV_VARS_CACHE = names
    return names


def global_configs():
    """Process-wide configuration knobs of the package under which the wire format must not change:
    a list of (name, enter, leave). Discovered from netqasm.runtime.settings (every module-level `set_*`
    function, tried with booleans and with the members of every Enum defined there that it accepts), the
    NETQASM_SIMULATOR environment variable and the package's log level."""
    import enum
    import os
    cfgs = []
    try:
        from netqasm.runtime import settings as S
    except Exception:  # pragma: no cover
        S = None
    if S is not None:
        enums = [v for v in vars(S).values() if isinstance(v, type) and issubclass(v, enum.Enum) and v is not enum.Enum]
        for name, fn in sorted(vars(S).items()):
            if not (name.startswith("set_") and callable(fn)):
                continue
            getter = getattr(S, "get_" + name[4:], None)
            vals = [True, False] + ([] if name.startswith("set_is_") else [m for e in enums for m in e])
            for v in vals:
                def enter(fn=fn, v=v, getter=getter):
                    env = dict(os.environ)
                    old = None
                    try:
                        old = getter() if getter else None
                    except Exception:
                        old = None
                    fn(v)  # may raise for a value it does not accept: caller skips the config
                    return (env, old)

                def leave(tok, fn=fn, getter=getter):
                    env, old = tok
                    if getter is not None:
                        try:
                            fn(old)
                        except Exception:
                            pass
                    os.environ.clear()
                    os.environ.update(env)

                cfgs.append((f"{name}({getattr(v, 'name', v)})", enter, leave))

    def env_enter(val):
        def enter():
            env = dict(os.environ)
            os.environ["NETQASM_SIMULATOR"] = val
            return env
        return enter

    def env_leave(env):
        os.environ.clear()
        os.environ.update(env)

    for val in ("netsquid", "simulaqron", "debug", "netsquid_single_thread"):
        cfgs.append((f"env NETQASM_SIMULATOR={val}", env_enter(val), env_leave))

    # every other environment variable the package's source reads (feature switches): switched on
    def envvar_enter(name, val):
        def enter():
            env = dict(os.environ)
            os.environ[name] = val
            return env
        return enter

    for name in sorted(source_env_vars()):
        if name == "NETQASM_SIMULATOR":
            continue
        for val in ("1", "true"):
            cfgs.append((f"env {name}={val}", envvar_enter(name, val), env_leave))

    def log_enter(level):
        def enter():
            from netqasm.logging.glob import get_log_level, set_log_level
            old = get_log_level(effective=False)
            set_log_level(level)
            return old
        return enter

    def log_leave(old):
        from netqasm.logging.glob import set_log_level
        set_log_level(old)

    cfgs.append(("log level DEBUG", log_enter("DEBUG"), log_leave))
    return cfgs


# ---- running a compact pass under every process-wide configuration, quietly -----------------------

import contextlib as _contextlib


@_contextlib.contextmanager
def quiet_stderr():
    """DEBUG logging of the package writes to stderr: silence the STREAM (fd 2), not the level"""
    import os
    import sys
    try:
        sys.stderr.flush()
    except Exception:
        pass
    saved = os.dup(2)
    devnull = os.open(os.devnull, os.O_WRONLY)
    try:
        os.dup2(devnull, 2)
        yield
    finally:
        try:
            sys.stderr.flush()
        except Exception:
            pass
        os.dup2(saved, 2)
        os.close(saved)
        os.close(devnull)


def under_every_config(body):
    """body(config_name) is run once under every configuration of `global_configs()` (entered, left and
    restored, stderr silenced); configurations whose `enter` raises are skipped. Returns names run."""
    ran = []
    for (cname, enter, leave) in global_configs():
        try:
            tok = enter()
        except Exception:
            continue
        try:
            with quiet_stderr():
                body(cname)
            ran.append(cname)
        finally:
            leave(tok)
    return ran
