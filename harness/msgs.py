"""Real-code side of the C15 stream: netqasm/backend/messages.py objects <-> the JSON form
of the Lean message model, generators of boundary / random / malformed cases."""
from vlib import common

common.use_repo()
from netqasm.backend import messages as M  # noqa: E402
from translate import msg_layouts as T  # noqa: E402

_C = {}


def tables():
    if not _C:
        d = T.collect()
        _C["layouts"] = {c.__name__: (c, size, lv, ty) for c, (size, lv, ty) in d["layouts"].items()}
        _C["host"] = [(t, c.__name__) for t, c in d["host"]]
        _C["ret"] = [(t, c.__name__) for t, c in d["ret"]]
    return _C


_PIN = {}


def pinned_layouts():
    """{class: (size, [(field name, start, width, signed)], type byte)} read from Model/MsgSpec.lean"""
    if not _PIN:
        import os
        import re
        text = open(os.path.join(common.LEAN_DIR, "NetqasmVerif", "Model", "MsgSpec.lean")).read()
        for m in re.finditer(r'⟨⟨"(\w+)", (\d+), \[(.*?)\]⟩, (\d+)⟩', text):
            fields = [(f.group(1), int(f.group(2)), int(f.group(3)), f.group(4) == "true")
                      for f in re.finditer(r'⟨"([\w.]+)", (\d+), (\d+), (true|false)⟩', m.group(3))]
            _PIN[m.group(1)] = (int(m.group(2)), fields, int(m.group(4)))
        if not _PIN:
            raise RuntimeError("pinned message formats not found in Model/MsgSpec.lean")
    return _PIN


def pinned_struct(key):
    """fields (name, start, width, signed) of the pinned `retArrHeader` / `optionalInt` struct"""
    import os
    import re
    text = open(os.path.join(common.LEAN_DIR, "NetqasmVerif", "Model", "MsgSpec.lean")).read()
    m = re.search(key + r' := ⟨"\w+", \d+, \[(.*?)\]⟩', text)
    if not m:
        raise RuntimeError("pinned struct %s not found" % key)
    return [(f.group(1), int(f.group(2)), int(f.group(3)), f.group(4) == "true")
            for f in re.finditer(r'⟨"([\w.]+)", (\d+), (\d+), (true|false)⟩', m.group(1))]


def pinned_width(cls_name, path, live_width, live_signed):
    """width / signedness of a leaf as PINNED (the declared widths of the property); the live
    descriptor's only if the pinned formats do not know the field"""
    ent = pinned_layouts().get(cls_name)
    if ent:
        for name, _, w, sg in ent[1]:
            if name == ".".join(path):
                return w, sg
    return live_width, live_signed


def direction_of(cls_name):
    t = tables()
    if any(c == cls_name for _, c in t["host"]):
        return "host"
    return "ret"


def make_msg(mj):
    """the real message object for a model message (through the real constructors)"""
    if mj["k"] == "fixed":
        c, _, lv, _ = tables()["layouts"][mj["c"]]
        return T.make_fixed(c, lv, mj["v"])
    if mj["k"] == "sub":
        return M.SubroutineMessage(bytes(mj["b"]))
    return M.ReturnArrayMessage(mj["a"], list(mj["v"]))


def msg_to_json(m):
    name = type(m).__name__
    if name == "SubroutineMessage":
        return {"k": "sub", "b": list(bytes(m.subroutine))}
    if name == "ReturnArrayMessage":
        return {"k": "arr", "a": m.address, "v": list(m.values)}
    c, _, lv, _ = tables()["layouts"][name]
    return {"k": "fixed", "c": name, "v": T.read_leaves(m, lv)}


def real_serialize(mj):
    try:
        return list(bytes(make_msg(mj))), None
    except Exception as e:
        return None, type(e).__name__


ARRAY_LEN_CAP = 4096   # declared array lengths above this are never decoded in this process unless
#                        the payload really carries that many entries (a valid long array)


def brief(x, limit=12, depth=0):
    """bounded, JSON-able summary of a result (never renders an unbounded object)"""
    if isinstance(x, dict):
        return {str(k): brief(v, limit, depth + 1) for k, v in list(x.items())[:20]}
    if isinstance(x, (list, tuple)):
        if len(x) > limit:
            return {"len": len(x), "head": [brief(v, limit, depth + 1) for v in x[:limit]]}
        return [brief(v, limit, depth + 1) for v in x]
    if isinstance(x, (int, float, bool)) or x is None:
        return x
    if isinstance(x, str):
        return x[:200]
    t = str(type(x).__name__)
    try:
        r = repr(x) if not hasattr(x, "__len__") or len(x) <= 64 else "<%s of len %d>" % (t, len(x))
    except Exception:
        r = "<%s>" % t
    return r[:200]


def declared_array_length(direction, raw):
    """(declared LENGTH, number of entries the payload can hold) if `raw` would be read as a returned
    array by the decoder of `direction`, else None.  Computed by the harness, not by the decoder."""
    try:
        if direction != "ret" or len(raw) < 1 or raw[0] != M.ReturnArrayMessage.TYPE.value:
            return None
        hl = M.ReturnArrayMessageHeader.len()
        if len(raw) < 1 + hl:
            return None
        hdr = M.ReturnArrayMessageHeader.from_buffer_copy(bytes(raw[1:1 + hl]))
        import ctypes as _ct
        from netqasm.lang.encoding import OptionalInt as _OI
        return int(hdr.length), (len(raw) - 1 - hl) // _ct.sizeof(_OI)
    except Exception:
        return None


def must_isolate(direction, raw):
    """a declared length that is large AND exceeds what the payload holds: a decoder that trusts it
    allocates that much; such inputs are only decoded in a memory-limited subprocess"""
    d = declared_array_length(direction, raw)
    return d is not None and d[0] > ARRAY_LEN_CAP and d[0] > d[1]


def real_deserialize(direction, raw):
    """({'m': json} or {'err': class name}); refuses inputs that `must_isolate`"""
    if must_isolate(direction, raw):
        return {"refused": "declared array length exceeds the payload: decode in isolation"}
    f = M.deserialize_host_msg if direction == "host" else M.deserialize_return_msg
    try:
        _DECODE_ORDER.append(direction)
    except NameError:
        pass
    try:
        return {"m": msg_to_json(f(bytes(raw)))}
    except MemoryError:
        return {"err": "MemoryError"}
    except Exception as e:
        return {"err": type(e).__name__}


_ISOLATED = r"""
import sys, json, resource
sys.path.insert(0, %r)
from netqasm.backend import messages as M
cases = json.loads(sys.stdin.read())
# limit the address space to what the process uses now plus a fixed allowance
vm = int(open("/proc/self/statm").read().split()[0]) * resource.getpagesize()
resource.setrlimit(resource.RLIMIT_AS, (vm + %d, vm + %d))
for direction, raw in cases:
    f = M.deserialize_host_msg if direction == "host" else M.deserialize_return_msg
    try:
        m = f(bytes(raw))
        if type(m).__name__ == "ReturnArrayMessage":
            n = len(m.values)
            out = {"m": {"k": "arr", "a": m.address, "len": n, "head": list(m.values[:8])}}
        else:
            out = {"m": {"k": type(m).__name__}}
        del m
    except MemoryError:
        out = {"err": "MemoryError"}
    except BaseException as e:
        out = {"err": type(e).__name__}
    print(json.dumps(out), flush=True)
"""


def isolated_decode(cases, mem_bytes=1 << 29, timeout=120):
    """Decode (direction, bytes) pairs with the real code in a subprocess whose address space is limited;
    returns one bounded summary per case ({'m': {..,'len':n,'head':[..]}} / {'err': cls} / {'died': ..})."""
    import json as _json
    import subprocess
    import sys as _sys
    if not cases:
        return []
    code = _ISOLATED % (common.REPO, mem_bytes, mem_bytes)
    try:
        p = subprocess.run([_sys.executable, "-c", code], input=_json.dumps([[d, list(r)] for d, r in cases]),
                           capture_output=True, text=True, timeout=timeout)
        lines = [ln for ln in p.stdout.split("\n") if ln.strip()]
        outs = [_json.loads(ln) for ln in lines]
    except subprocess.TimeoutExpired:
        outs = []
    except Exception as e:
        outs = []
    while len(outs) < len(cases):
        outs.append({"died": "the isolated decoder did not answer (killed, timed out or out of memory)"})
    return outs


# ---- generators ------------------------------------------------------------------

def field_values(width, signed, rng, n_random):
    if signed:
        lo, hi = -(1 << (width - 1)), (1 << (width - 1)) - 1
        vals = [0, 1, -1, hi, lo, hi - 1, lo + 1]
    else:
        lo, hi = 0, (1 << width) - 1
        vals = [0, 1, hi, hi - 1, hi // 2, hi // 2 + 1]
    vals = [v for v in dict.fromkeys(vals) if lo <= v <= hi]
    pats = [0x01020304, 0x7F000000, 0x00FF00FF, 0xAA55AA55, 0x80, 0x8000, 0x800000]
    for p in pats:
        v = p & ((1 << width) - 1)
        if signed and v > hi:
            v -= 1 << width
        vals.append(v)
    vals += [rng.randint(lo, hi) for _ in range(n_random)]
    return vals


def fixed_cases(rng, n_random, per_class):
    out = []
    for name, (c, size, lv, ty) in tables()["layouts"].items():
        pools = [[ty] if path == ("type",) else field_values(*pinned_width(name, path, w, s), rng, n_random)
                 for path, _, w, s in lv]
        n = max(len(p) for p in pools)
        for t in range(max(n, per_class)):
            vals = []
            for j, p in enumerate(pools):
                vals.append(p[(t + 3 * j * (t // len(p))) % len(p)] if t < n else rng.choice(p))
            out.append({"k": "fixed", "c": name, "v": vals})
    return out


I32 = (-(2 ** 31), 2 ** 31 - 1)


def array_case(rng, n):
    mode = rng.choice(["random", "random", "allnone", "nonone", "alternate", "sparse", "dense"])
    bounds = [0, 1, -1, I32[0], I32[1], 255, 256, -256, 0x01020304]

    def val():
        return rng.choice(bounds) if rng.random() < 0.4 else rng.randint(*I32)
    vs = []
    for k in range(n):
        if mode == "allnone":
            vs.append(None)
        elif mode == "nonone":
            vs.append(val())
        elif mode == "alternate":
            vs.append(None if k % 2 else val())
        else:
            p = {"random": 0.5, "sparse": 0.9, "dense": 0.1}[mode]
            vs.append(None if rng.random() < p else val())
    return {"k": "arr", "a": rng.choice(bounds + [rng.randint(*I32)]), "v": vs}, mode


# ---- histories: one message object observed and modified step by step -------------

def gen_history(mj, rng, n_steps):
    """Updates (JSON form of the Lean `Upd`) valid for a message that starts as `mj`; observations
    (`bytes`/`len`) are interleaved so that a later serialisation follows an earlier one."""
    us = []
    if rng.random() < 0.8:
        us.append({"u": "obs"})
    if mj["k"] == "fixed":
        _, _, lv, _ = tables()["layouts"][mj["c"]]
        ks = [k for k, (path, _, _, _) in enumerate(lv) if path != ("type",)]
        for _ in range(n_steps):
            if ks and rng.random() < 0.75:
                k = rng.choice(ks)
                _, _, w, s = lv[k]
                us.append({"u": "leaf", "k": k, "v": rng.choice(field_values(w, s, rng, 2))})
            else:
                us.append({"u": "obs"})
        return us
    if mj["k"] == "sub":
        for _ in range(n_steps):
            if rng.random() < 0.7:
                us.append({"u": "bytes", "b": [rng.randrange(256) for _ in range(rng.randrange(20))]})
            else:
                us.append({"u": "obs"})
        return us
    n = len(mj["v"])

    def val():
        return None if rng.random() < 0.35 else rng.choice([0, 1, -1, I32[0], I32[1], rng.randint(*I32)])
    for _ in range(n_steps):
        kind = rng.choice(["obs", "item", "item", "append", "append", "pop", "insert", "del", "addr", "values"])
        if kind == "item" and n:
            us.append({"u": "item", "i": rng.randrange(n), "v": val()})
        elif kind == "append":
            us.append({"u": "append", "v": val()})
            n += 1
        elif kind == "pop" and n:
            us.append({"u": "pop"})
            n -= 1
        elif kind == "insert":
            us.append({"u": "insert", "i": rng.randrange(n + 1), "v": val()})
            n += 1
        elif kind == "del" and n:
            us.append({"u": "del", "i": rng.randrange(n)})
            n -= 1
        elif kind == "addr":
            us.append({"u": "addr", "a": rng.choice([0, 1, -1, I32[0], I32[1], rng.randint(*I32)])})
        elif kind == "values":
            vs = [val() for _ in range(rng.randrange(6))]
            us.append({"u": "values", "v": vs})
            n = len(vs)
        else:
            us.append({"u": "obs"})
    return us


def apply_real(obj, mj, u, k):
    """one update on the real object; observations alternate between len() and bytes()"""
    kind = u["u"]
    if kind == "obs":
        return len(obj) if k % 2 == 0 else bytes(obj)
    if kind == "leaf":
        _, _, lv, _ = tables()["layouts"][mj["c"]]
        T.set_leaf(obj, lv[u["k"]][0], u["v"])
    elif kind == "bytes":
        obj.subroutine = bytes(u["b"])
    elif kind == "addr":
        obj.address = u["a"]
    elif kind == "values":
        obj.values = list(u["v"])
    elif kind == "item":
        obj.values[u["i"]] = u["v"]
    elif kind == "append":
        obj.values.append(u["v"])
    elif kind == "pop":
        obj.values.pop()
    elif kind == "insert":
        obj.values.insert(u["i"], u["v"])
    elif kind == "del":
        del obj.values[u["i"]]
    else:
        raise ValueError(kind)


def own_bytes_ok(direction, obj):
    """model-free oracle at one moment: the object's bytes deserialise to its current field values
    and len(obj) is the length of these bytes. Returns None if fine, else a description."""
    try:
        cur = msg_to_json(obj)
        rb = list(bytes(obj))
    except Exception as e:
        return {"exception_while_serialising": type(e).__name__ + ": " + str(e)[:120]}
    rd = real_deserialize(direction, rb)
    if rd != {"m": cur}:
        return {"current_fields": cur, "deserialised": rd, "bytes": rb[:120]}
    if len(obj) != len(rb):
        return {"current_fields": cur, "len": len(obj), "len_bytes": len(rb)}
    return None


# ---- decode-side histories: decoded objects are modified, then more bytes are decoded -------------

def mutable_parts(obj):
    """the mutable containers of a decoded message that must not be shared between two decodes"""
    if type(obj).__name__ == "ReturnArrayMessage":
        return [obj.values]
    return []


_DECODE_ORDER = []  # directions of the real decoder calls made so far in this process (most recent last)


def decode_order_tail(n=12):
    return list(_DECODE_ORDER[-n:])


BUFFER_KINDS = ["bytes", "bytearray", "memoryview-ro", "memoryview-rw"]


def as_buffer(raw, kind):
    """(what is handed to the decoder, the writable bytearray behind it or None)"""
    if kind == "bytes":
        return bytes(raw), None
    if kind == "memoryview-ro":
        return memoryview(bytes(raw)), None
    buf = bytearray(raw)
    return (buf if kind == "bytearray" else memoryview(buf)), buf


def guarded_decode(direction, raw, arg=None):
    """the real decoder on `raw` (or on the prepared buffer object `arg`); never raises: (object or
    None, json or None, exception class or None).  Records the direction in the process-wide order of
    decoder calls (the two directions share the module, so what one direction did before may matter
    for the other)."""
    _DECODE_ORDER.append(direction)
    f = M.deserialize_host_msg if direction == "host" else M.deserialize_return_msg
    try:
        obj = f(bytes(raw) if arg is None else arg)
    except Exception as e:
        return None, None, type(e).__name__ + ": " + str(e)[:120]
    try:
        return obj, msg_to_json(obj), None
    except Exception as e:  # an object of an unexpected type / shape came back
        return obj, None, "unreadable result %s (%s)" % (type(obj).__name__, type(e).__name__)


def _snapshot(obj):
    try:
        return msg_to_json(obj)
    except Exception as e:
        return {"unreadable": type(e).__name__}


def run_decode_history(pool, rng, n_steps, script=None):
    """pool: [(direction, model-json, bytes)].  Decodes entries -- host-direction and return-direction
    messages INTERLEAVED, repeats and empty arrays favoured --, edits earlier decoded objects in place,
    decodes again.  `script`: fixed list of pool entries to decode (no edits).  Nothing the real code
    does escapes: a decoder that raises on the bytes of a valid message, or returns something else,
    is a recorded problem.  Returns (steps, problems, live) where live = [(direction, decoded-from
    json, updates applied, object)] for the model comparison."""
    steps, problems, live = [], [], []
    empties = [p for p in pool if p[1]["k"] == "arr" and not p[1]["v"]]
    by_dir = {"host": [p for p in pool if p[0] == "host"], "ret": [p for p in pool if p[0] == "ret"]}
    last = None
    for step in range(len(script) if script is not None else n_steps):
        r = rng.random()
        if script is not None:
            entry = script[step]
        elif last is not None and r < 0.25:
            entry = last                      # the same bytes again
        elif last is not None and r < 0.6 and by_dir["ret" if last[0] == "host" else "host"]:
            entry = rng.choice(by_dir["ret" if last[0] == "host" else "host"])   # switch direction
        elif empties and r < 0.8:
            entry = rng.choice(empties)       # empty arrays: nothing to unpack
        else:
            entry = rng.choice(pool)
        last = entry
        direction, mj, raw = entry
        before = decode_order_tail()
        # the input buffer: bytes, a writable bytearray (a receive buffer), or a memoryview of either
        # (SubroutineMessage documents and accepts `bytes` only)
        kind = "bytes" if mj["k"] == "sub" else rng.choice(BUFFER_KINDS)
        reuse = [r for r in live if r[4] is not None and len(r[4]) >= len(raw)]
        if kind in ("bytearray", "memoryview-rw") and reuse and rng.random() < 0.5:
            # the receive buffer of an earlier message is reused for this one
            src = rng.choice(reuse)
            snap = _snapshot(src[3])
            buf = src[4]
            buf[:len(raw)] = bytes(raw)
            arg = buf if kind == "bytearray" else memoryview(buf)
            steps.append({"reuse_input_buffer_of": live.index(src)})
            now = _snapshot(src[3])
            if now != snap:
                problems.append({"step": len(steps), "what": "an earlier decoded message changed when its input "
                                 "buffer was reused for the next message", "was": snap, "is_now": now})
        else:
            arg, buf = as_buffer(raw, kind)
        obj, got, exc = guarded_decode(direction, raw, arg)
        steps.append({"decode": mj, "decoder": direction, "buffer": kind})
        if got != mj:
            problems.append({"step": len(steps),
                             "what": ("the decoder raises on the bytes of a valid message" if obj is None else
                                      "decoded message differs from the reference decode"),
                             "decoder": direction, "buffer": kind, "decoder_calls_before": before,
                             "bytes": list(raw)[:60], "reference": mj, "got": got, "exception": exc})
        if got is None:
            continue
        for (_, _, _, prev, _) in live:
            if prev is obj or any(a is b for a in mutable_parts(prev) for b in mutable_parts(obj)):
                problems.append({"step": len(steps), "what": "two decoded messages share a mutable part",
                                 "reference": mj})
        if got != mj:
            continue                          # not a faithful object: do not build further steps on it
        rec = [direction, mj, [], obj, buf]
        live.append(rec)
        if script is not None:
            continue
        # overwrite an input buffer after the fact (the caller owns it): no decoded message may change
        writable = [r for r in live if r[4] is not None]
        if writable and rng.random() < 0.5:
            tgt = rng.choice(writable)
            snaps = [_snapshot(r[3]) for r in live]
            how = rng.choice(["zeros", "ones", "random"])
            for k in range(len(tgt[4])):
                tgt[4][k] = {"zeros": 0, "ones": 255, "random": rng.randrange(256)}[how]
            steps.append({"overwrite_input_buffer_of": live.index(tgt), "with": how})
            for r, sn in zip(live, snaps):
                now = _snapshot(r[3])
                if now != sn:
                    problems.append({"step": len(steps), "what": "a decoded message changed when an input buffer "
                                     "was overwritten", "decoded_index": live.index(r), "was": sn, "is_now": now})
        # edit some decoded object in place (the holder of a result fills it in / post-processes it)
        for _k in range(rng.randrange(0, 3)):
            tgt = rng.choice(live)
            try:
                cur = msg_to_json(tgt[3])
                us = [u for u in gen_history(cur, rng, 2) if u["u"] != "obs"][:2]
                for u in us:
                    apply_real(tgt[3], tgt[1], u, 0)
                    tgt[2].append(u)
                    steps.append({"edit_decoded": live.index(tgt), "update": u})
            except Exception as e:
                problems.append({"step": len(steps), "what": "editing a decoded message raises",
                                 "exception": type(e).__name__ + ": " + str(e)[:120]})
    return steps, problems, live


# ---- public attributes (what a user of a decoded message reads) ---------------------------------

def _norm_public(v):
    import enum
    if isinstance(v, enum.Enum):
        return v.value
    try:
        return int(v)
    except Exception:
        return repr(v)[:80]


def public_view(obj, cls_name):
    """{attribute path: value} for every attribute the PINNED format lists for the class, read with
    plain getattr (not through ctypes descriptors)"""
    out = {}
    ent = pinned_layouts().get(cls_name)
    for name, _, _, _ in (ent[1] if ent else []):
        cur = obj
        try:
            for part in name.split("."):
                cur = getattr(cur, part)
            out[name] = _norm_public(cur)
        except Exception as e:
            out[name] = "<unreadable: %s>" % type(e).__name__
    return out


def public_roundtrip_problem(direction, mj):
    """For a ctypes message: build it through the real constructor, serialise, decode, and compare the
    PUBLIC attributes of the decoded message with those of the original and with the values it was
    built from. None if fine."""
    if mj["k"] != "fixed":
        return None
    ent = pinned_layouts().get(mj["c"])
    if not ent or len(ent[1]) != len(mj["v"]):
        return None
    try:
        obj = make_msg(mj)
        raw = bytes(obj)
        f = M.deserialize_host_msg if direction == "host" else M.deserialize_return_msg
        back = f(raw)
    except Exception as e:
        return {"exception": type(e).__name__ + ": " + str(e)[:120]}
    want = {name: v for (name, _, _, _), v in zip(ent[1], mj["v"])}
    a, b = public_view(obj, mj["c"]), public_view(back, mj["c"])
    if type(back).__name__ != mj["c"] or a != b or b != want:
        return {"built_from": want, "original_attributes": a, "decoded_attributes": b,
                "decoded_class": type(back).__name__, "bytes": list(raw)[:40]}
    return None
