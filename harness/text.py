"""Real-code side of the C17 streams: str(instr) and parse_text_subroutine."""
from vlib import common

common.use_repo()
from harness import codec as H  # noqa: E402
from netqasm.lang.parsing.text import parse_text_subroutine  # noqa: E402

PREAMBLE = "# NETQASM 0.0\n# APPID 0\n"


def real_print(inst):
    return str(inst)


def real_parse(flavour_name, lines, preamble=False):
    """{'is': [instr json]} or {'err': exception class name}; also returns the Subroutine"""
    text = (PREAMBLE if preamble else "") + "\n".join(lines)
    try:
        sub = parse_text_subroutine(text, flavour=H.FLAVOURS[flavour_name]())
    except Exception as e:
        return {"err": type(e).__name__}, None
    try:
        return {"is": [H.instr_to_json(i) for i in sub.instructions]}, sub
    except Exception as e:  # e.g. a Template operand: outside the model's operand type
        return {"err": "unsupported:" + type(e).__name__}, sub


ALPHABET = " @[]:-RCQMX0159ax_{}"


def mutate(line, rng, mnemonics):
    """a malformed (or differently formed) variant of a printed line + the kind of edit"""
    words = line.split(" ")
    kind = rng.choice(["del", "ins", "ins", "dupspace", "swap", "drop", "add", "upper", "unknown", "other-mn",
                       "litreg", "intindex", "neg", "zeros", "brackets"])
    if kind == "del" and len(line) > 1:
        k = rng.randrange(len(line))
        return line[:k] + line[k + 1:], kind
    if kind == "ins":
        k = rng.randrange(len(line) + 1)
        return line[:k] + rng.choice(ALPHABET) + line[k:], kind
    if kind == "dupspace" and " " in line:
        k = rng.choice([i for i, c in enumerate(line) if c == " "])
        return line[:k] + " " + line[k:], kind
    if kind == "swap" and len(words) > 2:
        i, j = rng.sample(range(1, len(words)), 2)
        words[i], words[j] = words[j], words[i]
        return " ".join(words), kind
    if kind == "drop" and len(words) > 1:
        del words[rng.randrange(1, len(words))]
        return " ".join(words), kind
    if kind == "add":
        words.insert(rng.randrange(1, len(words) + 1), rng.choice(["R1", "5", "@3", "@1[R2]", "@1[R2:R3]", "L"]))
        return " ".join(words), kind
    if kind == "upper":
        return " ".join([words[0].upper()] + words[1:]), kind
    if kind == "unknown":
        return " ".join([rng.choice(["nop", "rotx", "set_", "meas_basi", "movv", ""])] + words[1:]), kind
    if kind == "other-mn":
        return " ".join([rng.choice(mnemonics)] + words[1:]), kind
    if kind == "litreg" and len(words) > 1:
        k = rng.randrange(1, len(words))
        words[k] = rng.choice(["5", "-3", "0", "2147483648", "R3", "Q0", "C15", "M16", "R-1"])
        return " ".join(words), kind
    if kind == "intindex":
        k = rng.randrange(1, len(words) + 1)
        words.insert(k, rng.choice(["@0[3]", "@1[2:R3]", "@1[R2:7]", "@2[0:1]", "@0[-1]"]))
        if len(words) > 2 and rng.random() < 0.7:
            del words[k - 1 if k > 1 else k + 1]
        return " ".join(words), kind
    if kind == "neg":
        return line.replace("R", "R-", 1) if "R" in line else line.replace(" ", " -", 1), kind
    if kind == "zeros":
        return line.replace(" ", " 00", 1), kind
    if kind == "brackets":
        return rng.choice([line.replace("[", "[[", 1), line.replace("]", "", 1), line.replace("]", "]]", 1),
                           line.replace("[", "", 1), line.replace(":", "::", 1), line.replace("@", "@@", 1),
                           line.replace("@", "", 1), line + "]", line.replace("[", "[]", 1),
                           line.replace(":", ":R1:", 1), line.replace("[", "[:", 1), line.replace("@", "@R", 1)]), kind
    return line, "same"
