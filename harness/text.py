"""Real-code side of the C17 streams: str(instr) and parse_text_subroutine."""
from vlib import common

common.use_repo()
from harness import codec as H  # noqa: E402
from netqasm.lang.parsing.text import parse_text_subroutine  # noqa: E402

PREAMBLE = "# NETQASM 0.0\n# APPID 0\n"


def real_print(inst):
    return str(inst)


def real_parse(flavour_name, lines, preamble=False, factory=None):
    """{'is': [instr json]} or {'err': exception class name}; also returns the Subroutine.
    `factory`: a flavour class other than the three stock ones"""
    text = (PREAMBLE if preamble else "") + "\n".join(lines)
    try:
        sub = parse_text_subroutine(text, flavour=(factory or H.FLAVOURS[flavour_name])())
    except Exception as e:
        return {"err": type(e).__name__}, None
    try:
        return {"is": [H.instr_to_json(i) for i in sub.instructions]}, sub
    except Exception as e:  # e.g. a Template operand: outside the model's operand type
        return {"err": "unsupported:" + type(e).__name__}, sub


ALPHABET = " @[]:-RCQMX0159ax_{}"


def mutate(line, rng, mnemonics):
    """a malformed (or differently formed) variant of a printed line + the kind of edit"""
    words = line.split(" ")
    kind = rng.choice(["del", "ins", "ins", "dupspace", "swap", "drop", "add", "upper", "unknown", "other-mn",
                       "litreg", "intindex", "neg", "zeros", "brackets"])
    if kind == "del" and len(line) > 1:
        k = rng.randrange(len(line))
        return line[:k] + line[k + 1:], kind
    if kind == "ins":
        k = rng.randrange(len(line) + 1)
        return line[:k] + rng.choice(ALPHABET) + line[k:], kind
    if kind == "dupspace" and " " in line:
        k = rng.choice([i for i, c in enumerate(line) if c == " "])
        return line[:k] + " " + line[k:], kind
    if kind == "swap" and len(words) > 2:
        i, j = rng.sample(range(1, len(words)), 2)
        words[i], words[j] = words[j], words[i]
        return " ".join(words), kind
    if kind == "drop" and len(words) > 1:
        del words[rng.randrange(1, len(words))]
        return " ".join(words), kind
    if kind == "add":
        words.insert(rng.randrange(1, len(words) + 1), rng.choice(["R1", "5", "@3", "@1[R2]", "@1[R2:R3]", "L"]))
        return " ".join(words), kind
    if kind == "upper":
        return " ".join([words[0].upper()] + words[1:]), kind
    if kind == "unknown":
        return " ".join([rng.choice(["nop", "rotx", "set_", "meas_basi", "movv", ""])] + words[1:]), kind
    if kind == "other-mn":
        return " ".join([rng.choice(mnemonics)] + words[1:]), kind
    if kind == "litreg" and len(words) > 1:
        k = rng.randrange(1, len(words))
        words[k] = rng.choice(["5", "-3", "0", "2147483648", "R3", "Q0", "C15", "M16", "R-1"])
        return " ".join(words), kind
    if kind == "intindex":
        k = rng.randrange(1, len(words) + 1)
        words.insert(k, rng.choice(["@0[3]", "@1[2:R3]", "@1[R2:7]", "@2[0:1]", "@0[-1]"]))
        if len(words) > 2 and rng.random() < 0.7:
            del words[k - 1 if k > 1 else k + 1]
        return " ".join(words), kind
    if kind == "neg":
        return line.replace("R", "R-", 1) if "R" in line else line.replace(" ", " -", 1), kind
    if kind == "zeros":
        return line.replace(" ", " 00", 1), kind
    if kind == "brackets":
        return rng.choice([line.replace("[", "[[", 1), line.replace("]", "", 1), line.replace("]", "]]", 1),
                           line.replace("[", "", 1), line.replace(":", "::", 1), line.replace("@", "@@", 1),
                           line.replace("@", "", 1), line + "]", line.replace("[", "[]", 1),
                           line.replace(":", ":R1:", 1), line.replace("[", "[:", 1), line.replace("@", "@R", 1)]), kind
    return line, "same"


# ---- object histories: an instruction printed, modified in place, printed again -------------

_alias_cache = {}


def setter_aliases(c):
    """{field index: [names that assign this operand in place]}: the dataclass field itself and
    every writable property of the class (line, qreg, angle_num, ...) that is an alias of it.
    Found by identity on an instance built from pairwise distinct operand objects."""
    if c in _alias_cache:
        return _alias_cache[c]
    from netqasm.lang import operand as op
    from netqasm.lang.encoding import RegisterName
    fs = H.T.operand_fields(c)
    shape = H.shape_of(c)
    inst = c(**{f.name: H.T.zero_operand(k, op, RegisterName) for f, k in zip(fs, shape)})
    out = {j: [f.name] for j, f in enumerate(fs)}
    for name in dir(c):
        attr = None
        for klass in c.__mro__:
            if name in klass.__dict__:
                attr = klass.__dict__[name]
                break
        if isinstance(attr, property) and attr.fset is not None:
            try:
                val = getattr(inst, name)
            except Exception:
                continue
            for j, f in enumerate(fs):
                if getattr(inst, f.name) is val:
                    out[j].append(name)
    _alias_cache[c] = out
    return out


def gen_instr_history(inst, rng, n_steps):
    """[(json update, action)] for an instruction object: observations (str of the instruction, its
    debug_str, str of one operand) and in-place updates with in-range values: an operand assigned
    through the field or one of its property setters, or a mutable operand object (ArrayEntry /
    ArraySlice) edited in place (its address or a register inside it re-assigned)"""
    import copy as _cp
    from netqasm.lang import operand as op
    from netqasm.lang.encoding import RegisterName
    c = type(inst)
    shape = H.shape_of(c)
    al = setter_aliases(c)
    cur = [dict(o) for o in H.instr_to_json(inst)["o"]]
    steps = []
    if rng.random() < 0.85:
        steps.append(({"u": "obs"}, ("obs",)))
    for _ in range(n_steps):
        r = rng.random()
        mut = [k for k, kd in enumerate(shape) if kd in ("entry", "slice")]
        if mut and r < 0.3:
            k = rng.choice(mut)
            key = "e" if shape[k] == "entry" else "s"
            vals = list(cur[k][key])
            which = rng.choice(["address", "reg0"] + (["reg1"] if shape[k] == "slice" else []))
            if which == "address":
                v = rng.choice([0, 1, -1, 2 ** 31 - 1, -2 ** 31, rng.randrange(1000)])
                vals[0] = v
                act = ("mutop", k, "address", op.Address(v))
            else:
                b, i = rng.randrange(4), rng.randrange(16)
                pos = 1 if which == "reg0" else 3
                vals[pos], vals[pos + 1] = b, i
                attr = "index" if shape[k] == "entry" else ("start" if which == "reg0" else "stop")
                act = ("mutop", k, attr, op.Register(RegisterName(b), i))
            cur[k] = {key: vals}
            steps.append(({"u": "set", "k": k, "o": cur[k]}, act))
        elif shape and r < 0.75:
            k = rng.randrange(len(shape))
            o = _cp.deepcopy(rng.choice(H.values_for(shape[k], rng, 2)))   # a private object
            via = rng.choice(al[k])
            cur[k] = H.operand_to_json(o)
            steps.append(({"u": "set", "k": k, "o": cur[k]}, ("set", via, o)))
        else:
            steps.append(({"u": "obs"}, ("obs",)))
    return steps


def apply_instr(inst, action, step):
    if action[0] == "obs":
        if step % 3 == 2 and inst.operands:
            return str(inst.operands[step % len(inst.operands)])
        return str(inst) if step % 2 == 0 else inst.debug_str
    if action[0] == "mutop":
        setattr(inst.operands[action[1]], action[2], action[3])
        return None
    setattr(inst, action[1], action[2])


def own_text_ok(flavour_name, inst):
    """model-free oracle at one moment: the text printed for the object parses, with the flavour,
    to an instruction equal to the object as it is now. None if fine."""
    text = str(inst)
    rp, sub = real_parse(flavour_name, [text])
    if sub is None or list(sub.instructions) != [inst]:
        return {"printed": text, "current": H.instr_to_json(inst), "parsed": rp}
    return None


# a vanilla program with branches across gates that the NV transpiler expands
def branchy_source(rng):
    gates = ["h Q0", "x Q0", "y Q0", "z Q0", "s Q0", "t Q0", "k Q0", "h Q1", "x Q1", "cnot Q0 Q1",
             "cnot Q1 Q0", "cphase Q0 Q1", "rot_x Q0 3 4", "rot_z Q1 1 2", "rot_y Q0 5 3"]
    classical = ["add R0 R0 R1", "sub R2 R0 R1", "set R3 7", "set C1 -5"]
    lines = ["set Q0 0", "set Q1 1", "set R0 0", "set R1 3", "set R2 1", "qalloc Q0", "init Q0", "qalloc Q1",
             "init Q1"]
    n_labels = rng.randrange(1, 4)
    labels = ["L%d" % k for k in range(n_labels)]
    body = []
    for _ in range(rng.randrange(3, 12)):
        r = rng.random()
        if r < 0.5:
            body.append(rng.choice(gates))
        elif r < 0.7:
            body.append(rng.choice(classical))
        else:
            lab = rng.choice(labels)
            body.append(rng.choice(["beq R0 R1 %s", "bne R0 R2 %s", "blt R0 R1 %s", "bge R2 R1 %s",
                                    "bez R0 %s", "bnz R2 %s", "jmp %s"]) % lab)
    for lab in labels:
        body.insert(rng.randrange(len(body) + 1), lab + ":")
    return lines + body + ["qfree Q0", "qfree Q1", "ret_reg R0"]


# ---- flavours beyond the three stock ones ---------------------------------------------------
# User flavours are built with the documented hook: subclass a flavour (or Flavour itself) and
# extend `instrs`; `Flavour.__init__` inserts the core classes and then `update`s its maps with
# `instrs`, so the LAST class with a mnemonic / opcode is the one the maps resolve to.

import dataclasses as _dc

import numpy as _np

from netqasm.lang.instr import core as _core
from netqasm.lang.instr import flavour as _fl


@_dc.dataclass
class MyRotX(_core.RotationInstruction):  # re-uses mnemonic AND opcode of rot_x
    id: int = 27
    mnemonic: str = "rot_x"

    def to_matrix(self):
        return _np.eye(2)


@_dc.dataclass
class MyRotX2(_core.RotationInstruction):  # a second replacement of the same pair
    id: int = 27
    mnemonic: str = "rot_x"

    def to_matrix(self):
        return _np.eye(2)


@_dc.dataclass
class MyH(_core.SingleQubitInstruction):  # re-uses the mnemonic of h under a new opcode
    id: int = 60
    mnemonic: str = "h"

    def to_matrix(self):
        return _np.eye(2)


@_dc.dataclass
class MyCrotZ(_core.ControlledRotationInstruction):  # re-uses the opcode of cphase, unused mnemonic
    id: int = 31
    mnemonic: str = "crot_z"

    def to_matrix(self):
        return _np.eye(4)

    def to_matrix_target_only(self):
        return _np.eye(2)


@_dc.dataclass
class MyMeas(_core.MeasInstruction):  # replaces a CORE class (same mnemonic and opcode)
    pass


def _extend(base, extra, name):
    class _U(base):
        @property
        def instrs(self):
            return super().instrs + list(extra)
    _U.__name__ = _U.__qualname__ = name
    return _U


class _Bare(_fl.Flavour):
    @property
    def instrs(self):
        return [MyRotX2, MyH, MyRotX]

    def __init__(self):
        super().__init__(self.instrs)


CUSTOM_FLAVOURS = {
    "nv+MyRotX": _extend(_fl.NVFlavour, [MyRotX], "NVPlusMyRotX"),
    "vanilla+MyH": _extend(_fl.VanillaFlavour, [MyH], "VanillaPlusMyH"),
    "vanilla+MyCrotZ": _extend(_fl.VanillaFlavour, [MyCrotZ], "VanillaPlusMyCrotZ"),
    "reids+MyMeas+2xMyRotX": _extend(_fl.REIDSFlavour, [MyMeas, MyRotX, MyRotX2], "REIDSPlus"),
    "bare": _Bare,
    "nv+MyH+MyCrotZ": _extend(_fl.NVFlavour, [MyH, MyCrotZ, MyRotX2], "NVPlus3"),
}


def custom_table(factory):
    """(classes in insertion order: core first, then the flavour's `instrs`; rows for the model;
    the classes the maps must resolve to per mnemonic / per opcode under 'last wins')"""
    classes = list(_fl.CORE_INSTRUCTIONS) + list(factory().instrs)
    rows = [[H.T.cls_name(c), c.id, c.mnemonic, H.shape_of(c)] for c in classes]
    by_mn, by_id = {}, {}
    for c in classes:
        by_mn[c.mnemonic] = c
        by_id[c.id] = c
    return classes, rows, by_mn, by_id


def real_tbt_custom(factory, lines):
    """text -> objects -> bytes -> objects -> text with a custom flavour, through both binary entry
    points; returns {'is':…, 'is2':…, 'lines2':…} / {'err':…} like the model op text.tbt"""
    from netqasm.lang.parsing.binary import Deserializer, deserialize
    rp, sub = real_parse(None, lines, preamble=True, factory=factory)
    if sub is None:
        return rp
    out = {"is": rp.get("is")}
    try:
        raw = bytes(sub)
        a = Deserializer(factory()).deserialize_subroutine(raw)
        b = deserialize(raw, flavour=factory())
    except Exception as e:
        out["lines2"] = None
        out["exc"] = type(e).__name__
        return out
    la, lb = [str(i) for i in a.instructions], [str(i) for i in b.instructions]
    out["is2"] = [H.instr_to_json(i) for i in a.instructions]
    out["lines2"] = la
    if la != lb or list(a.instructions) != list(b.instructions):
        out["entry_points_differ"] = [la, lb]
    return out


# ---- parser histories: parse(text) must be a function of the text only ------------------------------

def mutable_operands(sub):
    """[(instruction index, operand index, operand)] of the in-place mutable operand objects"""
    from netqasm.lang import operand as op
    return [(k, j, o) for k, i in enumerate(sub.instructions) for j, o in enumerate(i.operands)
            if isinstance(o, (op.ArrayEntry, op.ArraySlice))]


def mutate_parsed(sub, rng):
    """one in-place edit of a parsed Subroutine (what a caller that owns the result may do): rename a
    register / re-address inside an ArrayEntry or ArraySlice, assign an operand field of an
    instruction, or edit the instruction list.  Returns a description or None."""
    from netqasm.lang import operand as op
    from netqasm.lang.encoding import RegisterName
    muts = mutable_operands(sub)
    r = rng.random()
    if muts and r < 0.6:
        k, j, o = rng.choice(muts)
        attr = rng.choice(["address"] + (["index"] if isinstance(o, op.ArrayEntry) else ["start", "stop"]))
        if attr == "address":
            v = rng.choice([0, 1, 77, -5])
            o.address = op.Address(v)
        else:
            v = [rng.randrange(4), rng.choice([12, 13, 14, 15])]
            setattr(o, attr, op.Register(RegisterName(v[0]), v[1]))
        return {"mutate": "operand-object", "instr": k, "slot": j, "attr": attr, "value": v}
    with_ops = [k for k, i in enumerate(sub.instructions) if H.shape_of(type(i))]
    if with_ops and r < 0.85:
        k = rng.choice(with_ops)
        inst = sub.instructions[k]
        shape = H.shape_of(type(inst))
        j = rng.randrange(len(shape))
        import copy as _cp
        o = _cp.deepcopy(rng.choice(H.values_for(shape[j], rng, 1)))   # a private object: no harness aliasing
        via = rng.choice(setter_aliases(type(inst))[j])
        setattr(inst, via, o)
        return {"mutate": "instr-field", "instr": k, "via": via, "operand": H.operand_to_json(o)}
    if sub.instructions:
        if rng.random() < 0.5:
            sub.instructions.pop(rng.randrange(len(sub.instructions)))
            return {"mutate": "list-pop"}
        import copy as _cp
        sub.instructions.append(_cp.deepcopy(sub.instructions[0]))
        return {"mutate": "list-append-copy-of-first"}
    return None


def snapshot_sub(sub):
    try:
        return [H.instr_to_json(i) for i in sub.instructions]
    except Exception as e:
        return {"unreadable": type(e).__name__}


def run_parse_history(pool, rng, n_steps):
    """pool: [(flavour, lines, reference instruction JSON list)].  Parses texts (the same one again,
    texts sharing operand strings, others), edits the parsed results in place in between.  Every parse
    must equal its reference, and an edit of one result must not show in any other live result.
    Returns (steps, problems)."""
    steps, problems, live = [], [], []
    last = None
    for _ in range(n_steps):
        entry = last if (last is not None and rng.random() < 0.45) else rng.choice(pool)
        last = entry
        fname, lines, ref = entry
        rp, sub = real_parse(fname, lines)
        steps.append({"parse": lines, "fl": fname})
        if rp != {"is": ref}:
            problems.append({"step": len(steps), "what": "a parse differs from the reference parse of the same text",
                             "text": lines, "fl": fname, "reference": ref, "got": rp})
        if sub is None:
            continue
        # two equal lines of one text must not share a mutable operand behaviourally: checked by the edits
        live.append(sub)
        for _k in range(rng.randrange(0, 3)):
            tgt = rng.choice(live)
            snaps = [snapshot_sub(s) for s in live]
            desc = mutate_parsed(tgt, rng)
            if desc is None:
                continue
            steps.append(dict(desc, of_parse=live.index(tgt)))
            if desc["mutate"] == "operand-object":
                # within the edited result only the addressed operand may change
                now = snapshot_sub(tgt)
                was = snaps[live.index(tgt)]
                if isinstance(now, list) and isinstance(was, list) and len(now) == len(was):
                    other = [k for k, (a, b) in enumerate(zip(was, now)) if a != b and k != desc["instr"]]
                    if other:
                        problems.append({"step": len(steps), "what": "editing an operand of one parsed instruction "
                                         "changed another instruction of the same parsed subroutine",
                                         "changed_instructions": other})
            for s_, sn in zip(live, snaps):
                if s_ is tgt:
                    continue
                now = snapshot_sub(s_)
                if now != sn:
                    problems.append({"step": len(steps), "what": "editing one parse result changed another parse "
                                     "result", "other_result": live.index(s_), "was": sn, "is_now": now})
    return steps, problems


_FRESH = r"""
import sys, json
sys.path.insert(0, %r)
sys.path.insert(0, %r)
from harness import text as X
cases = json.loads(sys.stdin.read())
print(json.dumps([X.real_parse(f, ls)[0] for f, ls in cases]))
"""


def fresh_interpreter_parse(cases):
    """parse (flavour, lines) pairs in a fresh interpreter; list of {'is':…}/{'err':…}, or None"""
    import json as _json
    import subprocess
    import sys as _sys
    try:
        p = subprocess.run([_sys.executable, "-c", _FRESH % (common.REPO, common.VERIF)],
                           input=_json.dumps(cases), capture_output=True, text=True, timeout=120,
                           env=dict(__import__("os").environ, NETQASM_REPO=common.REPO))
        return _json.loads(p.stdout.strip().split("\n")[-1])
    except Exception:
        return None


# ---- printer histories through the assembler: proto form printed, then assembled, printed again ------

def proto_print_history(fname, rng):
    """Source with integer constants (array indices, slice bounds, literals the assembler replaces by
    registers) -> ProtoSubroutine; print it at every level (str(proto), str(command), str(operand));
    assemble; print the assembled instructions: each line must parse, with the flavour, to exactly the
    instruction it was printed from, and the whole text to the whole list.  Returns (source, problem)."""
    from netqasm.lang.parsing.text import assemble_subroutine, parse_text_protosubroutine
    ent = lambda: "@%d[%s]" % (rng.randrange(5), rng.choice(["R%d" % rng.randrange(6), str(rng.randrange(9))]))
    sl = lambda: "@%d[%s:%s]" % (rng.randrange(5), rng.choice(["R1", str(rng.randrange(4))]),
                                 rng.choice(["R2", str(4 + rng.randrange(4))]))
    cands = [lambda: "store %s %s" % (rng.choice(["R0", "R3", "7"]), ent()), lambda: "load R%d %s" % (rng.randrange(6), ent()),
             lambda: "undef " + ent(), lambda: "wait_all " + sl(), lambda: "wait_any " + sl(),
             lambda: "wait_single " + ent(), lambda: "add R0 R1 %d" % rng.randrange(50),
             lambda: "array %d @%d" % (rng.randrange(1, 9), rng.randrange(5)), lambda: "set R5 -3"]
    src = [rng.choice(cands)() for _ in range(rng.randrange(1, 5))]
    try:
        proto = parse_text_protosubroutine(PREAMBLE + "\n".join(src))
        seen = [str(proto)]
        for cmd in proto.commands:
            seen.append(str(cmd))
            seen.append(getattr(cmd, "debug_str", ""))
            for o in getattr(cmd, "operands", []):
                seen.append(str(o))
        sub = assemble_subroutine(proto, flavour=H.FLAVOURS[fname]())
        str(sub)
        lines = [str(i) for i in sub.instructions]
    except Exception as e:
        return src, {"what": "printing / assembling a proto-subroutine raises",
                     "exception": type(e).__name__ + ": " + str(e)[:120]}
    for k, (ln, inst) in enumerate(zip(lines, sub.instructions)):
        ops_txt = " ".join(str(o) for o in inst.operands)
        if ln != (inst.mnemonic + " " + ops_txt).rstrip():
            return src, {"what": "str(instruction) is not its mnemonic followed by str() of its current operands",
                         "instruction": k, "printed": ln, "operands_now": ops_txt}
        rp, one = real_parse(fname, [ln])
        if one is None or list(one.instructions) != [inst]:
            return src, {"what": "an assembled instruction, printed after its proto form had been printed, does not "
                                 "parse back to itself", "instruction": k, "printed": ln,
                         "current": H.instr_to_json(inst), "parsed": rp}
    rp, whole = real_parse(fname, lines)
    if whole is None or list(whole.instructions) != list(sub.instructions):
        return src, {"what": "the printed assembled subroutine does not parse back to itself", "printed": lines,
                     "parsed": rp}
    return src, None


# ---- binary-leg histories: decode, edit the decoded objects in place, decode the same bytes again --------

def binary_leg_history(fname, rng, keep):
    """text -> bytes -> decode -> print; the decoded instructions are then edited in place (public setters,
    operand fields, operand objects, the list); the SAME bytes are decoded again through the long-lived
    Deserializer `keep`, a fresh one and the module-level deserialize(): every print must equal the first
    one and assemble back to the same bytes.  Identical commands within one subroutine: editing one must
    not show in the other.  Returns (description, problem or None)."""
    import copy as _cp
    from netqasm.lang.parsing.binary import Deserializer, deserialize
    pool = [c for c in H.flavour_classes(fname) if not (fname == "vanilla" and c.id == 41)]
    insts = [H.instances_of(rng.choice(pool), rng, 1, 2)[-1] for _ in range(rng.randrange(1, 5))]
    lines = [str(i) for i in insts]
    if rng.random() < 0.6:                       # identical commands within one subroutine
        k = rng.randrange(len(lines))
        for _ in range(rng.randrange(1, 3)):
            lines.insert(rng.randrange(len(lines) + 1), lines[k])
    desc = {"fl": fname, "text": lines, "steps": []}
    rp, sub = real_parse(fname, lines, preamble=True)
    if sub is None:
        return desc, {"what": "the printed text does not parse", "parsed": rp}
    try:
        raw = bytes(sub)
    except Exception as e:
        return desc, {"what": "the parsed text does not encode", "exception": type(e).__name__}
    entries = {"kept Deserializer": lambda: keep.deserialize_subroutine(raw),
               "fresh Deserializer": lambda: Deserializer(H.FLAVOURS[fname]()).deserialize_subroutine(raw),
               "deserialize(data, flavour)": lambda: deserialize(raw, flavour=H.FLAVOURS[fname]())}

    def decode_print(name):
        try:
            d = entries[name]()
            return d, [str(i) for i in d.instructions]
        except Exception as e:
            return None, {"exception": type(e).__name__ + ": " + str(e)[:100]}

    first_name = rng.choice(list(entries))
    d1, l1 = decode_print(first_name)
    desc["steps"].append({"decode": first_name})
    if l1 != lines:
        return desc, {"what": "text -> binary -> text is not stable", "printed": l1}
    # identical commands: edit one, the other must still print as before
    for _ in range(rng.randrange(1, 4)):
        snap = [str(i) for i in d1.instructions]
        ed = mutate_parsed(d1, rng)
        if ed is None:
            continue
        desc["steps"].append(ed)
        if ed["mutate"] in ("operand-object", "instr-field"):
            now = [str(i) for i in d1.instructions]
            other = [k for k, (a, b) in enumerate(zip(snap, now)) if a != b and k != ed["instr"]]
            if other and len(now) == len(snap):
                return desc, {"what": "editing one decoded instruction changed another (identical) instruction of "
                                      "the same decoded subroutine", "changed": other, "before": snap, "after": now}
    for name in entries:
        d2, l2 = decode_print(name)
        desc["steps"].append({"decode_again": name})
        if l2 != lines:
            return desc, {"what": "decoding the same bytes again, after decoded objects were edited in place, "
                                  "prints a different text", "entry": name, "first_print": lines, "now": l2}
        rp2, sub2 = real_parse(fname, l2, preamble=True)
        try:
            raw2 = bytes(sub2) if sub2 is not None else None
        except Exception:
            raw2 = None
        if raw2 != raw:
            return desc, {"what": "the text printed for the re-decoded bytes does not assemble back to these bytes",
                          "entry": name, "printed": l2}
    return desc, None
