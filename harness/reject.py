"""Real-code side of the C16 streams: out-of-range operands driven through direct
construction, the text assembler and the SDK."""
import logging

from vlib import common

common.use_repo()
from harness import codec as H  # noqa: E402
from netqasm.lang import operand as op  # noqa: E402
from netqasm.lang.encoding import RegisterName  # noqa: E402
from netqasm.lang.parsing.text import parse_text_subroutine  # noqa: E402
from translate import instr_table as T  # noqa: E402

I32_MIN, I32_MAX = -(2 ** 31), 2 ** 31 - 1

# ---- the ranges of the property statement (independent of the model) ----------

def in_range_part(part, v):
    if part == "idx":
        return 0 <= v <= 15
    if part == "bank":
        return 0 <= v <= 3
    if part == "imm8":
        return 0 <= v <= 255
    if part in ("int32", "addr"):
        return I32_MIN <= v <= I32_MAX
    raise ValueError(part)


JUST = {
    "idx": [16, -1], "bank": [4], "imm8": [256, -1],
    "int32": [I32_MAX + 1, I32_MIN - 1], "addr": [I32_MAX + 1, I32_MIN - 1],
}
FAR = {
    "idx": [17, 31, 63, 64, 255, 256, 2 ** 31, 2 ** 32 + 3, 10 ** 20, -16, -(2 ** 31)],
    "bank": [5, 7, 255],
    "imm8": [257, 300, 511, 512, 65535, 65536 + 7, 2 ** 31, 2 ** 32 + 44, 10 ** 20, -128, -255, -256,
             -(10 ** 20)],
    "int32": [I32_MAX + 2, 2 ** 32, 2 ** 32 + 5, 2 ** 63, 2 ** 64 + 1, 10 ** 20, I32_MIN - 2, -(2 ** 32),
              -(2 ** 32) - 5, -(2 ** 63) - 1, -(10 ** 20)],
}
FAR["addr"] = FAR["int32"]
INSIDE = {
    "idx": [0, 15], "bank": [0, 3], "imm8": [0, 255], "int32": [I32_MAX, I32_MIN, -1, 0],
    "addr": [I32_MAX, I32_MIN, -1, 0],
}


def parts_of(kind):
    """[(path, part-kind)] of the integer parts of an operand of `kind`; path indexes the
    JSON value list of harness/codec.py"""
    if kind == "reg":
        return [(("r", 0), "bank"), (("r", 1), "idx")]
    if kind == "imm8":
        return [(("i", None), "imm8")]
    if kind == "int32":
        return [(("i", None), "int32")]
    if kind == "addr":
        return [(("a", None), "addr")]
    if kind == "entry":
        return [(("e", 0), "addr"), (("e", 1), "bank"), (("e", 2), "idx")]
    if kind == "slice":
        return [(("s", 0), "addr"), (("s", 1), "bank"), (("s", 2), "idx"), (("s", 3), "bank"),
                (("s", 4), "idx")]
    raise ValueError(kind)


def base_operand_json(kind, rng):
    def reg():
        return [rng.randrange(4), rng.choice([0, 1, 7, 15, rng.randrange(16)])]

    def i32():
        return rng.choice([0, 1, -1, I32_MAX, I32_MIN, rng.randint(I32_MIN, I32_MAX)])

    if kind == "reg":
        return {"r": reg()}
    if kind == "imm8":
        return {"i": rng.choice([0, 1, 255, rng.randrange(256)])}
    if kind == "int32":
        return {"i": i32()}
    if kind == "addr":
        return {"a": i32()}
    if kind == "entry":
        return {"e": [i32()] + reg()}
    if kind == "slice":
        return {"s": [i32()] + reg() + reg()}
    raise ValueError(kind)


def set_part(oj, path, v):
    k, ix = path
    oj = dict(oj)
    if ix is None:
        oj[k] = v
    else:
        l = list(oj[k])
        l[ix] = v
        oj[k] = l
    return oj


def cases_for_class(c, rng, thorough):
    """yield (ops_json, tag, bad) — tag = (slot, part, 'just'|'far'|'inside')"""
    shape = H.shape_of(c)
    n_base = 10 if thorough else 3
    for j, kind in enumerate(shape):
        for path, part in parts_of(kind):
            for cat, vals in (("just", JUST[part]), ("far", FAR[part]), ("inside", INSIDE[part])):
                if cat == "far" and not thorough:
                    vals = rng.sample(vals, min(7, len(vals)))
                for v in vals:
                    for _ in range(n_base):
                        ops = [base_operand_json(k, rng) for k in shape]
                        ops[j] = set_part(ops[j], path, v)
                        yield ops, (j, kind, part, cat), not in_range_part(part, v)
    if not shape:
        yield [], (0, "none", "none", "inside"), False


# ---- route D: direct construction ---------------------------------------------

def build_direct(c, ops_json, wrap=None):
    """the instruction object, or None if constructing it already raises.
    wrap: callable applied to immediate values (numpy / bool variants)"""
    fs = T.operand_fields(c)
    args = {}
    for f, oj in zip(fs, ops_json):
        if wrap is not None and "i" in oj:
            args[f.name] = op.Immediate(wrap(oj["i"]))
        else:
            args[f.name] = H.operand_from_json(oj)
    return c(**args)


def real_direct(c, ops_json, wrap=None):
    """(bytes or None, exception class name or None, instr or None)"""
    try:
        inst = build_direct(c, ops_json, wrap)
    except Exception as e:
        return None, type(e).__name__, None
    try:
        return list(bytes(inst.serialize())), None, inst
    except Exception as e:
        return None, type(e).__name__, inst


# ---- route T: the text assembler -------------------------------------------------

BANKS = "RCQM"


def render_reg(b, i):
    return f"{BANKS[b]}{i}"


def render_operand(oj):
    if "r" in oj:
        return render_reg(*oj["r"])
    if "i" in oj:
        return str(oj["i"])
    if "a" in oj:
        return "@" + str(oj["a"])
    if "e" in oj:
        a, b, i = oj["e"]
        return f"@{a}[{render_reg(b, i)}]"
    a, b0, i0, b1, i1 = oj["s"]
    return f"@{a}[{render_reg(b0, i0)}:{render_reg(b1, i1)}]"


def renderable(ops_json):
    for oj in ops_json:
        v = list(oj.values())[0]
        banks = []
        if "r" in oj:
            banks = [v[0]]
        elif "e" in oj:
            banks = [v[1]]
        elif "s" in oj:
            banks = [v[1], v[3]]
        if any(not 0 <= b <= 3 for b in banks):
            return False
    return True


def render_text(mn, ops_json, v0=0, v1=0, app=0):
    line = " ".join([mn] + [render_operand(o) for o in ops_json])
    return f"# NETQASM {v0}.{v1}\n# APPID {app}\n{line}\n"


def real_text(flavour_name, text):
    """(bytes or None, exception class or None, parsed instruction list or None)"""
    try:
        sub = parse_text_subroutine(text, flavour=H.FLAVOURS[flavour_name]())
    except Exception as e:
        return None, "parse:" + type(e).__name__, None
    try:
        return list(bytes(sub)), None, list(sub.instructions)
    except Exception as e:
        return None, type(e).__name__, list(sub.instructions)


# ---- route S: the SDK ------------------------------------------------------------

_sdk = {}


def _sdk_imports():
    if not _sdk:
        from netqasm.backend.messages import deserialize_host_msg, SubroutineMessage
        from netqasm.runtime import settings
        from netqasm.sdk.connection import BaseNetQASMConnection, DebugConnection
        from netqasm.sdk.qubit import Qubit
        from netqasm.sdk.shared_memory import SharedMemoryManager
        from netqasm.sdk.transpile import NVSubroutineTranspiler
        logging.getLogger().setLevel(logging.CRITICAL)
        try:
            from netqasm.logging.glob import set_log_level
            set_log_level("CRITICAL")
        except Exception:
            pass
        _sdk.update(locals())
    return _sdk


def run_sdk(body, nv=False, hw=False, app_id=None):
    """Runs `body(conn, qubit)` inside a DebugConnection; returns (list of subroutine byte
    strings or None, exception class name or None)."""
    S = _sdk_imports()
    S["SharedMemoryManager"].reset_memories()
    S["BaseNetQASMConnection"]._app_ids.clear()
    S["settings"].set_is_using_hardware(hw)
    try:
        kw = {}
        if nv:
            kw["compiler"] = S["NVSubroutineTranspiler"]
        if app_id is not None:
            kw["app_id"] = app_id
        with S["DebugConnection"]("Alice", **kw) as conn:
            q = S["Qubit"](conn)
            body(conn, q)
        subs = []
        for raw in conn.storage:
            m = S["deserialize_host_msg"](raw)
            if isinstance(m, S["SubroutineMessage"]):
                subs.append(bytes(m.subroutine))
        return subs, None
    except Exception as e:
        return None, type(e).__name__
    finally:
        S["settings"].set_is_using_hardware(False)


def commands_with_opcode(subs, opcode):
    out = []
    for s in subs:
        body = s[4:]
        for k in range(0, len(body), 7):
            if body[k] == opcode:
                out.append(list(body[k:k + 7]))
    return out


# ---- object histories at subroutine level: encode, edit in place, encode again ------------------

import copy as _copy

ENCODERS = ["bytes(sub)", "sub.__bytes__()", "join(sub.cstructs)", "SubroutineMessage(sub)"]


def encode_via(sub, how):
    """(bytes as list or None, exception class or None) through one public encoding route"""
    from netqasm.backend.messages import SubroutineMessage
    try:
        if how == "bytes(sub)":
            b = bytes(sub)
        elif how == "sub.__bytes__()":
            b = sub.__bytes__()
        elif how == "join(sub.cstructs)":
            b = b"".join(bytes(c) for c in sub.cstructs)
        else:
            b = bytes(SubroutineMessage(sub))[1:]
        return list(b), None
    except Exception as e:
        return None, type(e).__name__


def operand_bad(kind, oj):
    for path, part in parts_of(kind):
        k, ix = path
        v = oj[k] if ix is None else oj[k][ix]
        if not in_range_part(part, v):
            return True
    return False


def content_of(sub):
    """(instruction JSON list, app id, True if some operand / the app id is unrepresentable)"""
    js, bad = [], False
    for i in sub.instructions:
        j = H.instr_to_json(i)
        js.append(j)
        for kind, oj in zip(H.shape_of(type(i)), j["o"]):
            bad = bad or operand_bad(kind, oj)
    app = sub.app_id
    bad = bad or not (isinstance(app, int) and 0 <= app <= 65535)
    return js, app, bad


def bad_or_good_operand(kind, rng, p_bad):
    oj = base_operand_json(kind, rng)
    if rng.random() < p_bad:
        cands = [(path, part) for path, part in parts_of(kind) if part != "bank"]
        path, part = rng.choice(cands)
        oj = set_part(oj, path, rng.choice(JUST[part] + FAR[part][:4]))
    return oj


def new_instr(fname, rng, p_bad):
    c = rng.choice(H.flavour_classes(fname))
    ops = [bad_or_good_operand(k, rng, p_bad / max(1, len(H.shape_of(c)))) for k in H.shape_of(c)]
    return build_direct(c, ops)


def edit_subroutine(sub, fname, rng):
    """one in-place edit of a Subroutine object; returns its description"""
    from harness import text as X
    from netqasm.lang import operand as op
    instrs = sub.instructions
    kind = rng.choice(["attr", "attr", "attr", "operand-inplace", "append", "insert", "setitem", "app_id",
                       "instantiate"])
    with_ops = [k for k, i in enumerate(instrs) if H.shape_of(type(i))]
    if kind == "attr" and with_ops:
        k = rng.choice(with_ops)
        inst = instrs[k]
        shape = H.shape_of(type(inst))
        j = rng.randrange(len(shape))
        oj = bad_or_good_operand(shape[j], rng, 0.75)
        via = rng.choice(X.setter_aliases(type(inst))[j])
        setattr(inst, via, H.operand_from_json(oj))
        return {"edit": "attr", "instr": k, "via": via, "operand": oj}
    if kind == "operand-inplace":
        cands = [(k, j) for k, i in enumerate(instrs) for j, o in enumerate(i.operands)
                 if isinstance(o, (op.ArrayEntry, op.ArraySlice))]
        if cands:
            k, j = rng.choice(cands)
            o = instrs[k].operands[j]
            what = rng.choice(["address"] + (["index"] if isinstance(o, op.ArrayEntry) else ["start", "stop"]))
            if what == "address":
                v = rng.choice(JUST["addr"] + FAR["addr"][:3] + [5])
                o.address = op.Address(v)
            else:
                v = rng.choice([16, 17, 255, -1, 3])
                setattr(o, what, op.Register(RegisterName.R, v))
            return {"edit": "operand-inplace", "instr": k, "slot": j, "attr": what, "value": v}
    if kind in ("append", "insert", "setitem") or not instrs:
        ni = new_instr(fname, rng, 0.75)
        if kind == "insert" and instrs:
            k = rng.randrange(len(instrs) + 1)
            instrs.insert(k, ni)
        elif kind == "setitem" and instrs:
            k = rng.randrange(len(instrs))
            instrs[k] = ni
        else:
            k = len(instrs)
            instrs.append(ni)
        return {"edit": kind, "at": k, "instr": H.instr_to_json(ni)}
    app = rng.choice([65535, 65536, 70000, 2 ** 32 + 4464, 7])
    if kind == "instantiate":
        sub.instantiate(app)
        return {"edit": "instantiate", "app_id": app}
    sub.app_id = app
    return {"edit": "app_id", "app_id": app}


def fresh_copy(sub):
    from netqasm.lang.subroutine import Subroutine
    return Subroutine(instructions=[_copy.deepcopy(i) for i in sub.instructions], app_id=sub.app_id,
                      netqasm_version=tuple(sub.netqasm_version))


# ---- every integer-taking entry point of the SDK surface ---------------------------------------------

def sdk_int_probes():
    """[(name, width tag, body(conn, qubit, v))]: one probe per integer parameter of the SDK surface that
    ends up in the subroutine.  width: 'i32' (register words, addresses, branch operands), 'u8'."""
    from netqasm.sdk.qubit import Qubit

    def nothing(*a):
        pass

    def epr(conn):
        return conn._test_epr_socket

    P = []
    P.append(("Builder.new_register(init_value=v)", "i32", lambda c, q, v: c.builder.new_register(v)))
    P.append(("Qubit(conn, virtual_address=v)", "i32", lambda c, q, v: Qubit(c, virtual_address=v)))
    P.append(("new_array(init_values=[v])", "i32", lambda c, q, v: c.new_array(init_values=[v])))
    P.append(("new_array(init_values=[1, None, v])", "i32", lambda c, q, v: c.new_array(init_values=[1, None, v])))
    P.append(("new_array(length=v)", "i32", lambda c, q, v: c.new_array(length=v)))

    def loop_stop(c, q, v):
        with c.loop(v):
            q.H()
    P.append(("loop(stop=v)", "i32", loop_stop))

    def loop_start(c, q, v):
        with c.loop(v + 3 if v < 2 ** 40 else v + 3, start=v):
            q.H()
    P.append(("loop(stop=v+3, start=v)", "i32", loop_start))

    def loop_step(c, q, v):
        with c.loop(10, step=v):
            q.H()
    P.append(("loop(10, step=v)", "i32", loop_step))
    P.append(("loop_body(body, stop=v)", "i32", lambda c, q, v: c.loop_body(lambda conn, *a: q.H(), stop=v)))

    def loop_until(c, q, v):
        with c.loop_until(v) as loop:
            m = q.measure(inplace=True)
            loop.set_exit_condition(__import__("netqasm.sdk.constraint", fromlist=["x"]).ValueAtMostConstraint(m, 0))
    P.append(("loop_until(max_iterations=v)", "i32", loop_until))

    def try_until(c, q, v):
        with c.try_until_success(max_tries=v):
            q.H()
    P.append(("try_until_success(max_tries=v)", "i32", try_until))
    for nm in ("if_eq", "if_ne", "if_lt", "if_ge"):
        P.append((f"conn.{nm}(reg, v, body)", "i32",
                  lambda c, q, v, nm=nm: getattr(c, nm)(c.builder.new_register(1), v, lambda conn: q.H())))
        P.append((f"conn.{nm}(v, reg, body)", "i32",
                  lambda c, q, v, nm=nm: getattr(c, nm)(v, c.builder.new_register(1), lambda conn: q.H())))
    for nm in ("if_ez", "if_nz"):
        P.append((f"conn.{nm}(v, body)", "i32", lambda c, q, v, nm=nm: getattr(c, nm)(v, lambda conn: q.H())))

    def fut_if(c, q, v, nm):
        f = c.new_array(init_values=[1]).get_future_index(0)
        with getattr(f, nm)(v):
            q.H()
    for nm in ("if_eq", "if_ne", "if_lt", "if_ge"):
        P.append((f"Future.{nm}(v)", "i32", lambda c, q, v, nm=nm: fut_if(c, q, v, nm)))
    P.append(("Future.add(v)", "i32", lambda c, q, v: c.new_array(init_values=[1]).get_future_index(0).add(v)))
    P.append(("Future.add(1, mod=v)", "i32",
              lambda c, q, v: c.new_array(init_values=[1]).get_future_index(0).add(1, mod=v)))
    P.append(("RegFuture.add(v)", "i32", lambda c, q, v: c.builder.new_register(1).add(v)))
    P.append(("Array.get_future_index(v) as measure target", "i32",
              lambda c, q, v: q.measure(future=c.new_array(length=3).get_future_index(v))))
    P.append(("Array.get_future_slice(slice(v, v+2)) foreach", "i32",
              lambda c, q, v: c.new_array(length=3).get_future_slice(slice(v, v + 2))))
    P.append(("Qubit.measure(future=array[v])", "i32",
              lambda c, q, v: q.measure(future=c.new_array(length=3)[v])))
    for meth in ("create_keep", "recv_keep"):
        P.append((f"EPRSocket.{meth}(max_time=v)" if meth == "create_keep" else f"EPRSocket.{meth}(min_fidelity_all_at_end=v)",
                  "i32", (lambda c, q, v: epr(c).create_keep(max_time=v)) if meth == "create_keep" else
                  (lambda c, q, v: epr(c).recv_keep(min_fidelity_all_at_end=v, max_tries=3))))
    P.append(("EPRSocket.create_keep(min_fidelity_all_at_end=v)", "i32",
              lambda c, q, v: epr(c).create_keep(min_fidelity_all_at_end=v, max_tries=3)))
    P.append(("EPRSocket.create_keep(max_tries=v)", "i32",
              lambda c, q, v: epr(c).create_keep(min_fidelity_all_at_end=80, max_tries=v)))
    P.append(("EPRSocket.create_measure(max_time=v)", "i32", lambda c, q, v: epr(c).create_measure(max_time=v)))
    P.append(("EPRSocket(epr_socket_id=v)", "i32", None))       # handled by the runner (constructor argument)
    P.append(("EPRSocket(remote_epr_socket_id=v)", "i32", None))
    return P


def all_ints_of(subs):
    """every integer (immediate, address, register index) in the committed subroutines"""
    from netqasm.lang.parsing.binary import deserialize
    out = set()
    for raw in subs:
        try:
            sub = deserialize(raw)
        except Exception:
            continue
        for i in sub.instructions:
            j = H.instr_to_json(i)
            for o in j["o"]:
                v = list(o.values())[0]
                for x in (v if isinstance(v, list) else [v]):
                    out.add(x)
    return out


def run_sdk_int_probe(name, body, v):
    """(committed subroutine byte strings or None, exception class or None) with a fresh connection"""
    S = _sdk_imports()
    from netqasm.sdk.epr_socket import EPRSocket
    S["SharedMemoryManager"].reset_memories()
    S["BaseNetQASMConnection"]._app_ids.clear()
    S["DebugConnection"].node_ids = {"Alice": 0, "Bob": 1}
    try:
        if name.startswith("EPRSocket(epr_socket_id"):
            sock = EPRSocket("Bob", epr_socket_id=v)
        elif name.startswith("EPRSocket(remote_epr_socket_id"):
            sock = EPRSocket("Bob", remote_epr_socket_id=v)
        else:
            sock = EPRSocket("Bob")
        with S["DebugConnection"]("Alice", epr_sockets=[sock]) as conn:
            conn._test_epr_socket = sock
            q = S["Qubit"](conn)
            if body is not None:
                body(conn, q, v)
            else:
                sock.create_keep()
        subs = []
        for raw in conn.storage:
            m = S["deserialize_host_msg"](raw)
            if isinstance(m, S["SubroutineMessage"]):
                subs.append(bytes(m.subroutine))
        return subs, None, list(conn.storage)
    except Exception as e:
        return None, type(e).__name__, None


# ---- alternative spellings of integers in the text route -------------------------------------------

_ARABIC = str.maketrans("0123456789", "٠١٢٣٤٥٦٧٨٩")
_FULLWIDTH = str.maketrans("0123456789", "０１２３４５６７８９")


def spellings(v):
    """[(name, text)] alternative ways to write the integer v that a lenient parser might accept"""
    sign, a = ("-" if v < 0 else ""), abs(v)
    out = [("hex", sign + "0x%X" % a), ("hex-lower", sign + "0x%x" % a), ("HEX-prefix", sign + "0X%X" % a),
           ("octal", sign + "0o%o" % a), ("binary", sign + "0b" + bin(a)[2:]), ("underscores", sign + f"{a:_}"),
           ("plus", ("+" if v >= 0 else "-") + str(a)), ("leading-zeros", sign + "000" + str(a)),
           ("exponent", sign + str(a) + "e0"), ("float", sign + str(a) + ".0"), ("tab-after", str(v) + "\t"),
           ("arabic-indic-digits", sign + str(a).translate(_ARABIC)),
           ("fullwidth-digits", sign + str(a).translate(_FULLWIDTH)),
           ("c-octal", sign + "0" + "%o" % a), ("hex-h-suffix", sign + "%Xh" % a),
           ("twos-complement-hex", "0x%X" % (v & 0xFFFFFFFF)) if -2 ** 31 <= v < 0 else ("hex-padded", sign + "0x0%X" % a)]
    return out


def render_operand_alt(oj, path, text):
    """canonical rendering of the operand with the integer at `path` replaced by `text`"""
    k, ix = path

    def part(i, v):
        return text if (ix == i or (ix is None and i is None)) else str(v)

    def reg(bi, b, ii, i):
        return BANKS[b] + part(ii, i)
    if k == "r":
        return reg(0, oj["r"][0], 1, oj["r"][1])
    if k == "i":
        return part(None, oj["i"])
    if k == "a":
        return "@" + part(None, oj["a"])
    if k == "e":
        a, b, i = oj["e"]
        return "@%s[%s]" % (part(0, a), reg(1, b, 2, i))
    a, b0, i0, b1, i1 = oj["s"]
    return "@%s[%s:%s]" % (part(0, a), reg(1, b0, 2, i0), reg(3, b1, 4, i1))
