"""C13 over histories with entanglement deliveries through the executor's pending-response list.

Reuses the scenario machinery of `harness/epr.py` (requests, responses, schedules over
{subroutine step, deliver, poll}, the real `_handle_epr_response` / `_handle_pending_epr_responses`,
full-state comparison with the composed controller model `Model/Controller.lean`) and adds

* the link layer taking the physical qubit of a keep response from the executor's pool
  (`_get_unused_physical_qubit`, model action `reserve`) right before it delivers — the environment
  hypothesis of `C13.reachable_controller`;
* the C13 statement evaluated model-free on the real executor after EVERY action: injective
  (application, virtual) -> physical map, used = mapped + held by the link layer, tables agree,
  isolation (a subroutine step may only change its own application; a delivery / poll may only change
  applications that issued a request on the queue of some delivered response), and "an action that
  raises changes nothing".
"""
import copy

from harness import epr as E
from harness import exec as X


class _Shim:
    """what `exec.InvariantObserver._snap_app` needs"""

    def __init__(self, ex):
        self.e = ex


def snap_all(ex):
    sh = _Shim(ex)
    apps = set(ex._qubit_unit_modules) | set(ex._registers) | set(ex._app_arrays) | set(ex._shared_memories)
    return {a: X.InvariantObserver._snap_app(sh, a) for a in apps}


def req_key(rq, pmul=1000):
    """the queue a request belongs to: (remote node, purpose id, role) — computed from the scenario, not
    from the executor's dictionaries"""
    return (rq.remote, rq.remote * pmul + rq.purpose, rq.role == "create")


class SocketPurposeStack(E.RecordingStack):
    """network stack whose purpose id is `remote * pmul + socket id`; pmul = 0: the purpose id IS the
    socket id, so requests towards different remote nodes can carry the same purpose id"""

    def __init__(self, pmul):
        super().__init__()
        self.pmul = pmul

    def get_purpose_id(self, remote_node_id, epr_socket_id):
        if self.fail_next == "purpose":
            return super().get_purpose_id(remote_node_id, epr_socket_id)
        return remote_node_id * self.pmul + epr_socket_id


def new_executor(pmul=1000):
    ex = E.new_executor()
    if pmul != 1000:
        ex.network_stack = SocketPurposeStack(pmul)
    return ex


def retarget(sc, pmul):
    """rewrite the purpose ids of the scenario's responses for a stack with multiplier `pmul`"""
    if pmul != 1000:
        for r in sc.resps:
            r.purpose = r.remote * pmul + (r.purpose % 1000)
    return sc


class PoolReplayer(E.Replayer):
    """`Replayer` + link-layer reservation + the C13 oracle after every action."""

    def __init__(self, sc, ex=None, reserve=True, pmul=1000):
        for r in sc.resps:
            if r.ty == "K":
                r.seq = 300 + r.uid     # sequence numbers are unrelated to (and apart from) every physical id in play
        super().__init__(sc, ex)
        self.pmul = pmul
        self.full = True
        self.reserve = reserve
        self.reserved = set()       # taken by the link layer, not yet mapped by any application
        self.delivered_keys = set()
        self.c13 = []               # violations of the C13 statement
        self.obs_errors = []
        self.delivered_phys = set()  # physical ids carried by the keep responses handed to the executor
        self.fresh_from = 50        # no-reserve mode: any id unused at delivery time; searched from here so
                                    # that a later qalloc (lowest unused id) cannot take the qubit of a parked pair
        self.owners = {}            # request key -> applications that issue a request on it
        for sp in sc.subs:
            for rq in sp.reqs:
                self.owners.setdefault(req_key(rq, pmul), set()).add(sp.app)

    def bad(self, what, tok, **kw):
        self.c13.append(dict({"what": what, "step": len(self.steps), "tok": list(tok)}, **kw))

    def step(self, tok):
        if self.stopped:
            return
        ex, sc = self.ex, self.sc
        before = snap_all(ex)
        used0 = set(ex._used_physical_qubit_addresses)
        n0 = len(self.steps)
        pre_cacts = []
        if tok[0] in ("x", "i"):
            self.lifecycle(tok, before, used0)
            return
        if tok[0] == "d":
            r = sc.resps[tok[1]]
            if r.uid in self.uid2idx:
                return
            if self.reserve and r.ty == "K":
                r.phys = ex._get_unused_physical_qubit()      # the link layer holds this qubit from now on
                self.reserved.add(r.phys)
                used0.add(r.phys)
                pre_cacts.append({"a": "reserve"})
            elif r.ty == "K":
                # no pre-reservation (a stub network stack): the pair sits in ANY physical qubit that is
                # unused at delivery time and not carried by a response that is still parked.  Nothing
                # marks it: it becomes used only when the executor maps it to a virtual qubit.
                parked = {x.logical_qubit_id for x in ex._pending_epr_responses if hasattr(x, "logical_qubit_id")}
                p = self.fresh_from
                while p in ex._used_physical_qubit_addresses or p in parked:
                    p += 1
                r.phys = p
            self.delivered_keys.add(r.key())
            if r.ty == "K":
                self.delivered_phys.add(r.phys)
        try:
            super().step(tok)
        except Exception as e:
            # the C12 observation code could not read the executor's EPR bookkeeping (its shape changed):
            # the action itself has been performed — the model-free C13 oracle below still runs
            self.obs_errors.append("%s: %s" % (type(e).__name__, e))
            self.steps.append({"tok": list(tok), "acts": [], "cacts": [], "obs_error": True})
        if len(self.steps) == n0:
            return                                             # token not enabled: nothing happened
        st = self.steps[-1]
        st["cacts"] = pre_cacts + st["cacts"]
        self.check(tok, st, before, used0)

    def lifecycle(self, tok, before, used0):
        """("x", app): stop_application; ("i", app, n): init_new_application — while requests / parked
        responses of the application may still exist"""
        ex = self.ex
        rec = {"tok": list(tok), "acts": []}
        try:
            if tok[0] == "x":
                rec["cacts"] = [{"a": "stop", "app": tok[1]}]
                list(ex.stop_application(tok[1]))
            else:
                rec["cacts"] = [{"a": "init", "app": tok[1], "n": tok[2]}]
                ex.init_new_application(tok[1], tok[2])
        except Exception as e:
            rec["refused"] = type(e).__name__      # the model's life-cycle ops return a fault, no `raise`
        rec["full"] = E.dump_full(ex, sorted(self.sc.apps), self.addrs, list(self.sid.values()), ex._name)
        rec["fin"] = {self.sid[i]: st for i, st in self.state.items() if i in self.sid}
        try:
            rec["obs"] = E.canon_real(ex, self.uid2idx, self.oracle.ident2uid)
        except Exception as e:
            self.obs_errors.append("%s: %s" % (type(e).__name__, e))
        self.steps.append(rec)
        if "refused" in rec and (snap_all(ex) != before or set(ex._used_physical_qubit_addresses) != used0):
            self.bad("a refused %s changed the executor state" % ("stop" if tok[0] == "x" else "registration"), tok)
        self.check(tok, rec, before, used0)

    # ---- the C13 statement on the real executor ----------------------------------------------------
    def check(self, tok, st, before, used0):
        ex, sc = self.ex, self.sc
        seen = {}
        for a, um in ex._qubit_unit_modules.items():
            for v, p in enumerate(um):
                if p is None:
                    continue
                if p in seen:
                    self.bad("two virtual qubits map to the same physical qubit", tok, physical=p,
                             first=seen[p], second=[a, v], unit_modules={str(k): list(u) for k, u in
                                                                         ex._qubit_unit_modules.items()})
                seen[p] = [a, v]
        self.reserved -= set(seen)           # delivered into a virtual slot
        used = set(ex._used_physical_qubit_addresses)
        if used != set(seen) | self.reserved:
            self.bad("set of used physical qubits differs from the set currently mapped", tok,
                     used=sorted(used), mapped=sorted(seen), held_by_link_layer=sorted(self.reserved))
        tables = [set(ex._qubit_unit_modules), set(ex._registers), set(ex._app_arrays), set(ex._shared_memories)]
        if any(t != tables[0] for t in tables):
            self.bad("per-application tables disagree on the registered applications", tok)
        now = snap_all(ex)
        if tok[0] == "s":
            allowed = {sc.subs[tok[1]].app}
        elif tok[0] in ("x", "i"):
            allowed = {tok[1]}
            if tok[0] == "x" and "refused" not in st:
                mine = [p for p in ((before.get(tok[1]) or {}).get("unit") or []) if p is not None]
                if tok[1] in now or any(p in used for p in mine):
                    self.bad("stop_application left qubits or memory of the application behind", tok)
        else:
            allowed = set()
            for k in self.delivered_keys:
                allowed |= self.owners.get(k, set())
        for b in set(before) | set(now):
            if b not in allowed and before.get(b) != now.get(b):
                if tok[0] == "s":
                    what = "a subroutine of one application changed another application's state"
                else:
                    what = ("an entanglement delivery changed an application that has no request on the "
                            "queues of the delivered responses")
                self.bad(what, tok, changed_app=b, may_change=sorted(allowed),
                         unit_before=(before.get(b) or {}).get("unit"), unit_after=(now.get(b) or {}).get("unit"))
        if tok[0] in ("d", "p"):
            was = {p for a in before.values() for p in (a.get("unit") or []) if p is not None}
            new = sorted(p for p in seen if p not in was and p not in self.delivered_phys)
            if new:
                self.bad("an entanglement delivery mapped a virtual qubit to a physical qubit that no delivered keep "
                         "response carries (the delivered qubit itself is not mapped)", tok, mapped_to=new,
                         delivered=sorted(self.delivered_phys))
        if "raised" in st and tok[0] in ("d", "p"):
            if before != now or used != used0:
                self.bad("a delivery / poll that raised %s changed the executor state" % st["raised"], tok)


def run_case(sc, toks, driver, reserve=True, pmul=1000):
    """-> (replayer, controller-model difference or None)"""
    rp = PoolReplayer(retarget(sc, pmul), new_executor(pmul), reserve=reserve, pmul=pmul)
    for tok in toks:
        rp.step(tok)
        if rp.stopped:
            break
    req = E.ctl_request(rp)
    req["pmul"] = pmul
    out = driver.call(req)
    if rp.obs_errors:
        dc = {"what": "the executor's EPR bookkeeping could not be observed", "code": rp.obs_errors[0],
              "model": "(model state available)"}
    else:
        dc = E.compare_with_ctl(out, rp) if "obs" in out else {"model": out}
    return rp, dc


def fails(desc, toks, what, reserve=True, pmul=1000):
    toks = [tuple(t) for t in toks]
    rp = PoolReplayer(E.Scenario.from_desc(copy.deepcopy(desc)), new_executor(pmul), reserve=reserve, pmul=pmul)
    for tok in toks:
        rp.step(tok)
        if rp.stopped:
            break
    return any(v["what"] == what for v in rp.c13)


def shrink_schedule(desc, toks, what, reserve=True, pmul=1000):
    """drop schedule tokens while the same C13 violation is still reported"""
    cur = list(toks)
    i = len(cur) - 1
    budget = 150
    while i >= 0 and budget > 0:
        c = cur[:i] + cur[i + 1:]
        budget -= 1
        try:
            if fails(desc, c, what, reserve, pmul):
                cur = c
        except Exception:
            pass
        i -= 1
    return cur


# ---------------------------------------------------------------- directed scenarios

def _rng():
    import random
    return random.Random(7)


def blocked_head_scenario(number=2, blocked="norecv"):
    """An older response is parked at the head of the pending list (no recv posted on its socket, or its
    virtual qubit still allocated) while later keep responses of a 2-pair request are handled."""
    rng = _rng()
    sc = E.Scenario()
    sc.apps = {0: number + 2}
    sp = E.SubProg(0, 0)
    rq = E.Req("recv", "K", 1, 0, number, list(range(number)))
    sp.reqs.append(rq)
    sp.op_array(0, number)
    for k in range(number):
        sp.op_store(0, k, k)
    sp.op_array(1, E.OK_FIELDS_K * number)
    sp.op_recv(rq, 0, 1)
    uid = 0
    if blocked == "busy":
        # a second request on another socket whose virtual qubit is still allocated: its response defers
        rq2 = E.Req("recv", "K", 1, 1, 1, [number])
        sp.reqs.append(rq2)
        sp.op_qalloc(number)
        sp.op_array(2, 1)
        sp.op_store(2, 0, number)
        sp.op_array(3, E.OK_FIELDS_K)
        sp.op_recv(rq2, 2, 3)
    sp.op_wait("all", 1, 0, E.OK_FIELDS_K * number)
    for k in range(number):
        sp.op_qfree(k)
    if blocked == "busy":
        sp.op_qfree(number)
        sp.op_wait("all", 3, 0, E.OK_FIELDS_K)
    sc.subs.append(sp)
    sock_blocked = 1 if blocked == "busy" else 2      # socket 2: nobody ever posts a recv
    sc.resps.append(E.RespSpec(uid, "K", 1, E.purpose_of(1, sock_blocked), 1, 100, rng))
    for k in range(number):
        sc.resps.append(E.RespSpec(uid + 1 + k, "K", 1, E.purpose_of(1, 0), 1, 101 + k, rng))
    toks = [("s", 0)] * (len(sp.lines) - (2 * number + (3 if blocked == "busy" else 0)) + 1)
    toks += [("d", 0)] + [("d", 1 + k) for k in range(number)] + [("p",)]
    toks += [("s", 0)] * (len(sp.lines) + 2) + [("p",), ("s", 0), ("s", 0), ("p",)]
    return sc, toks


def stale_request_scenario(pairs=1, vq_other=1, early_other=False):
    """Application 0 posts a keep request and its subroutine ends before the pair arrives; a
    subroutine of application 1 is started and sits in a wait when the response is delivered.
    Unchanged code: the response is refused (the issuing subroutine is gone) and nothing changes."""
    rng = _rng()
    sc = E.Scenario()
    sc.apps = {0: 2, 1: 3}
    a = E.SubProg(0, 0)
    rq = E.Req("recv", "K", 1, 0, pairs, list(range(pairs)))
    a.reqs.append(rq)
    a.op_array(0, pairs)
    for k in range(pairs):
        a.op_store(0, k, k)
    a.op_array(1, E.OK_FIELDS_K * pairs)
    a.op_recv(rq, 0, 1)                       # … and the subroutine ends without waiting
    b = E.SubProg(1, 0)
    b.op_array(0, pairs)
    for k in range(pairs):
        b.op_store(0, k, (vq_other + k) % 3)
    b.op_array(1, E.OK_FIELDS_K * pairs)
    b.op_array(5, 1)
    b.op_wait("single", 5, 0, 0)              # never satisfied: the subroutine stays in flight
    sc.subs = [a, b]
    for k in range(pairs):
        sc.resps.append(E.RespSpec(k, "K", 1, E.purpose_of(1, 0), 1, 100 + k, rng))
    run_a = [("s", 0)] * (len(a.lines) + 2)
    run_b = [("s", 1)] * (len(b.lines) + 2)
    toks = (run_b[:3] + run_a + run_b if early_other else run_a + run_b) + [("d", 0), ("p",), ("s", 1)]
    return sc, toks


def parked_then_stop_scenario(pairs=1, other_app=True):
    """A keep response arrives while its virtual qubit is still allocated: it is parked (nothing may be
    marked in use for it).  Then the application is stopped and the same id is registered again and
    allocates; a second application allocates in between: used must equal mapped throughout."""
    rng = _rng()
    sc = E.Scenario()
    sc.apps = {0: pairs + 1}
    if other_app:
        sc.apps[1] = 2
    sp = E.SubProg(0, 0)
    rq = E.Req("recv", "K", 1, 0, pairs, list(range(pairs)))
    sp.reqs.append(rq)
    for k in range(pairs):
        sp.op_qalloc(k)                       # the virtual qubits the request names are busy
    sp.op_array(0, pairs)
    for k in range(pairs):
        sp.op_store(0, k, k)
    sp.op_array(1, E.OK_FIELDS_K * pairs)
    sp.op_recv(rq, 0, 1)
    sp.op_wait("all", 1, 0, E.OK_FIELDS_K * pairs)      # blocks: the responses stay parked
    sc.subs.append(sp)
    if other_app:
        ob = E.SubProg(1, 0)
        ob.op_qalloc(0)
        ob.op_qalloc(1)
        sc.subs.append(ob)
    again = E.SubProg(0, 0)
    for k in range(pairs + 1):
        again.op_qalloc(k)
    sc.subs.append(again)
    for k in range(pairs):
        sc.resps.append(E.RespSpec(k, "K", 1, E.purpose_of(1, 0), 1, 100 + k, rng))
    toks = [("s", 0)] * (len(sp.lines) + 2) + [("d", k) for k in range(pairs)] + [("p",)]
    if other_app:
        toks += [("s", 1)] * (len(sc.subs[1].lines) + 2)
    toks += [("x", 0), ("i", 0, pairs + 1)] + [("s", len(sc.subs) - 1)] * (len(again.lines) + 2)
    return sc, toks


def same_purpose_scenario(pairs=1, first="later"):
    """Two applications with keep requests outstanding towards DIFFERENT remote nodes on the same socket
    id; with a stack whose purpose id is the socket id (pmul = 0) both requests carry purpose 0.  A
    delivery from remote node 2 may change only the application that asked node 2."""
    rng = _rng()
    sc = E.Scenario()
    sc.apps = {0: pairs + 1, 1: pairs + 1}
    for app, remote in ((0, 1), (1, 2)):
        sp = E.SubProg(app, 0)
        rq = E.Req("recv", "K", remote, 0, pairs, list(range(pairs)))
        sp.reqs.append(rq)
        sp.op_array(0, pairs)
        for k in range(pairs):
            sp.op_store(0, k, k)
        sp.op_array(1, E.OK_FIELDS_K * pairs)
        sp.op_recv(rq, 0, 1)
        sp.op_wait("all", 1, 0, E.OK_FIELDS_K * pairs)
        for k in range(pairs):
            sp.op_qfree(k)
        sc.subs.append(sp)
    uid = 0
    for remote in (1, 2):
        for k in range(pairs):
            sc.resps.append(E.RespSpec(uid, "K", remote, E.purpose_of(remote, 0), 1, 100 + uid, rng))
            uid += 1
    n0 = len(sc.subs[0].lines) - 2 * pairs
    toks = [("s", 0)] * (n0 + 1) + [("s", 1)] * (n0 + 1)
    order = list(range(pairs, 2 * pairs)) + list(range(pairs)) if first == "later" else list(range(2 * pairs))
    toks += [("d", i) for i in order] + [("p",)] + [("s", 0), ("s", 1)] * (2 * pairs + 3)
    return sc, toks
