"""Real-code side of the C03 streams: proto-program generators, adapters to
`assemble_subroutine` / `parse_text_subroutine`, a direct interpreter of SOURCE proto programs
(written from the property statement, model-free), an adapter that runs the assembled
subroutine on the real base `Executor`, and a shrinker.

A proto program is a list of commands in the JSON form understood by the model driver:
  {"l": name}                                   BranchLabel
  {"m": mnemonic, "a": [ints], "o": [operand]}  ICmd
operand: {"r":[bank,idx]} | {"i":v} | {"lab":name} | {"t":name} | {"a":addr}
       | {"e":[addr, ri]} | {"s":[addr, ri, ri]},  ri = {"r":[bank,idx]} | {"i":v}
"""
import copy
import logging
import random  # noqa: F401  (used by the plug-in for per-case rendering seeds)

from vlib import common

common.use_repo()

from netqasm.backend.executor import Executor  # noqa: E402
from netqasm.lang import operand as O  # noqa: E402
from netqasm.lang.encoding import RegisterName  # noqa: E402
from netqasm.lang.instr.flavour import VanillaFlavour  # noqa: E402
from netqasm.lang.ir import BranchLabel, GenericInstr, ICmd, ProtoSubroutine  # noqa: E402
from netqasm.lang.parsing import text as T  # noqa: E402
from netqasm.sdk.shared_memory import SharedMemoryManager  # noqa: E402
from netqasm.util import string as S  # noqa: E402
from netqasm.util.error import NetQASMSyntaxError  # noqa: E402

logging.getLogger().setLevel(logging.CRITICAL)
try:
    from netqasm.logging.glob import set_log_level  # noqa: E402

    set_log_level("CRITICAL")
except Exception:  # pragma: no cover
    pass

BANKS = "RCQM"
GI = {g.name.lower(): g for g in GenericInstr}

# roles of the operand positions of the instructions in scope of C03 (from the instruction
# reference): u = value read, d = register written, n = register named and read, i = immediate,
# t = branch target, a = address, e = array entry
STD = {
    "set": "di", "qalloc": "u", "qfree": "u", "array": "ua", "store": "ue", "load": "de",
    "undef": "e", "lea": "da", "jmp": "t", "bez": "ut", "bnz": "ut", "beq": "uut", "bne": "uut",
    "blt": "uut", "bge": "uut", "add": "duu", "sub": "duu", "addm": "duuu", "subm": "duuu",
    "ret_reg": "n", "ret_arr": "a",
}

# ---------------------------------------------------------------- JSON <-> real objects


def ri_real(j):
    if "r" in j:
        return O.Register(RegisterName(j["r"][0]), j["r"][1])
    return j["i"]


def op_real(j):
    if "r" in j:
        return O.Register(RegisterName(j["r"][0]), j["r"][1])
    if "i" in j:
        return j["i"]
    if "lab" in j:
        return O.Label(j["lab"])
    if "t" in j:
        return O.Template(j["t"])
    if "a" in j:
        return O.Address(j["a"])
    if "e" in j:
        return O.ArrayEntry(O.Address(j["e"][0]), ri_real(j["e"][1]))
    if "s" in j:
        return O.ArraySlice(O.Address(j["s"][0]), ri_real(j["s"][1]), ri_real(j["s"][2]))
    raise ValueError(j)


class PrivateProtoSubroutine(ProtoSubroutine):
    """An IR container that never leaks its command list: the `commands` property hands out a
    snapshot and stores a snapshot.  The assembler only talks to the IR through that property."""

    @property
    def commands(self):
        return list(self._commands)

    @commands.setter
    def commands(self, new_commands):
        self._commands = list(new_commands)


def to_real(prog, share_seed=None, private=False):
    """The IR objects of a proto program.  `share_seed is None`: every command, operands list and
    operand is a fresh object.  Otherwise the IR is built the way programs build IR — objects are
    reused: equal commands may be ONE ICmd object occurring several times, equal operand lists one
    list, equal ArrayEntry / ArraySlice / Label / Register operands one object (chosen from the
    seed).  The MEANING of the IR is the same: its values."""
    mode = share_seed if isinstance(share_seed, str) else None   # "cmd" | "list" | "op": share all of that level
    rng = random.Random(0 if mode else share_seed) if share_seed is not None else None
    p = 1.0 if mode else (rng.choice([0.3, 0.7, 1.0]) if rng else 0.0)
    seen_cmd, seen_ops, seen_op = {}, {}, {}

    def key(j):
        return repr(sorted(j.items())) if isinstance(j, dict) else repr(j)

    def one_op(o):
        k = key(o)
        if rng and mode in (None, "op") and k in seen_op and rng.random() < p:
            return seen_op[k]
        x = op_real(o)
        seen_op[k] = x
        return x

    cmds = []
    for c in prog:
        if "l" in c:
            cmds.append(BranchLabel(c["l"]))
            continue
        kc = repr((c["m"], c["a"], [key(o) for o in c["o"]]))
        if rng and mode in (None, "cmd") and kc in seen_cmd and rng.random() < p:
            cmds.append(seen_cmd[kc])
            continue
        ko = repr([key(o) for o in c["o"]])
        if rng and mode in (None, "list") and ko in seen_ops and rng.random() < p:
            ops = seen_ops[ko]
        else:
            ops = [one_op(o) for o in c["o"]]
            seen_ops[ko] = ops
        cmd = ICmd(instruction=GI[c["m"]], args=list(c["a"]), operands=ops)
        seen_cmd[kc] = cmd
        cmds.append(cmd)
    cls = PrivateProtoSubroutine if private else ProtoSubroutine
    return cls(commands=cmds, netqasm_version=(0, 0), app_id=0)


def sharing_of(proto):
    """how many objects of an IR occur more than once (for the evidence distribution)"""
    cmds = [c for c in proto._commands if isinstance(c, ICmd)]
    n_cmd = len(cmds) - len({id(c) for c in cmds})
    lists = [c.operands for c in {id(c): c for c in cmds}.values()]
    n_list = len(lists) - len({id(x) for x in lists})
    ops = [o for lst in {id(x): x for x in lists}.values() for o in lst if not isinstance(o, int)]
    n_op = len(ops) - len({id(o) for o in ops})
    return n_cmd, n_list, n_op


def ri_json(x):
    if isinstance(x, O.Register):
        return {"r": [x.name.value, x.index]}
    return {"i": x}


def op_json(x):
    if isinstance(x, O.Register):
        return {"r": [x.name.value, x.index]}
    if isinstance(x, bool):
        raise ValueError(x)
    if isinstance(x, int):
        return {"i": x}
    if isinstance(x, O.Label):
        return {"lab": x.name}
    if isinstance(x, O.Template):
        return {"t": x.name}
    if isinstance(x, O.Address):
        return {"a": x.address}
    if isinstance(x, O.ArrayEntry):
        return {"e": [x.address.address, ri_json(x.index)]}
    if isinstance(x, O.ArraySlice):
        return {"s": [x.address.address, ri_json(x.start), ri_json(x.stop)]}
    raise ValueError(x)


def proto_json(proto):
    out = []
    for c in proto.commands:
        if isinstance(c, BranchLabel):
            out.append({"l": c.name})
        else:
            out.append({"m": c.instruction.name.lower(), "a": list(c.args), "o": [op_json(o) for o in c.operands]})
    return out


def instr_json(inst):
    """same canonical form as harness/codec.py (class, operands)"""
    c = type(inst)
    ops = []
    for x in inst.operands:
        if isinstance(x, O.Register):
            ops.append({"r": [x.name.value, x.index]})
        elif isinstance(x, O.Immediate):
            ops.append({"i": x.value})
        elif isinstance(x, O.Address):
            ops.append({"a": x.address})
        elif isinstance(x, O.ArrayEntry):
            ops.append({"e": [x.address.address, x.index.name.value, x.index.index]})
        elif isinstance(x, O.ArraySlice):
            ops.append({"s": [x.address.address, x.start.name.value, x.start.index,
                              x.stop.name.value, x.stop.index]})
        else:
            raise ValueError(x)
    return {"c": c.__module__.split(".")[-1] + "." + c.__name__, "o": ops}


def classify_error(e):
    if isinstance(e, RuntimeError) and "no registers left" in str(e):
        return "noRegister"
    if isinstance(e, NetQASMSyntaxError) and "unique" in str(e):
        return "dupLabel"
    if isinstance(e, KeyError):
        return "unknownInstr"
    if isinstance(e, AssertionError):
        return "badOperands"
    return type(e).__name__


def real_assemble(prog, reserved=(), share_seed=None, private=False, twice=False):
    """-> {"ok": [instr json]} | {"err": kind}, and the Subroutine (or None).
    `reserved`: (bank, idx) pairs passed as `reserved_registers=` (only when non-empty, so that a
    tree without the parameter is still usable for everything else).
    `share_seed` / `private`: see `to_real`.  `twice`: the SAME ProtoSubroutine object is assembled
    a second time and that result is returned (the passes rewrite the IR in place, by design; what
    must hold is that assembling it again gives the same subroutine)."""
    proto = to_real(prog, share_seed, private)
    if share_seed is not None:
        real_assemble.last_sharing = sharing_of(proto)
    kw = {}
    if reserved:
        kw["reserved_registers"] = [O.Register(RegisterName(b), i) for (b, i) in reserved]
    try:
        sub = T.assemble_subroutine(proto, **kw)
        if twice:
            sub = T.assemble_subroutine(proto, **kw)
    except Exception as e:  # noqa: BLE001
        return {"err": classify_error(e)}, None
    try:
        return {"ok": [instr_json(i) for i in sub.instructions]}, sub
    except Exception as e:  # an instruction object the canonical form cannot express
        return {"err": "unrenderable:" + type(e).__name__}, None


def meaning_snapshot(cmds):
    """the values of the caller's command objects, argument brackets merged (the assembler merges
    `instr(args) ops` into `instr args ops` in place — the same meaning)"""
    out = []
    for c in cmds:
        if isinstance(c, BranchLabel):
            out.append({"l": c.name})
        else:
            out.append({"m": c.instruction.name.lower(), "o": [op_json(a) for a in c.args] + [op_json(o) for o in c.operands]})
    return out


def reuse_oracle(prog, prefix, suffix, reserved=()):
    """The caller's IR objects are inputs, not scratch.  (1) After `assemble_subroutine` the caller's
    own ICmd / BranchLabel objects still mean what they meant.  (2) The SAME objects placed in a
    DIFFERENT program (commands prepended / appended, so labels sit at other indices) assemble like
    fresh copies of that program.  Returns None or a description (model-free, real vs real)."""
    objs = list(to_real(prog)._commands)
    before = meaning_snapshot(objs)
    kw = {}
    if reserved:
        kw["reserved_registers"] = [O.Register(RegisterName(b), i) for (b, i) in reserved]
    try:
        T.assemble_subroutine(ProtoSubroutine(commands=list(objs), netqasm_version=(0, 0), app_id=0), **kw)
    except Exception:  # noqa: BLE001
        return None
    after = meaning_snapshot(objs)
    if before != after:
        bad = [k for k, (x, y) in enumerate(zip(before, after)) if x != y]
        return {"what": "assemble_subroutine changes the meaning of the caller's IR objects",
                "at": bad[:3], "before": [before[k] for k in bad[:3]], "after": [after[k] for k in bad[:3]]}
    prog2 = prefix + prog + suffix
    fresh = real_assemble(prog2, reserved)[0]
    pre_objs = list(to_real(prefix)._commands)
    suf_objs = list(to_real(suffix)._commands)
    try:
        sub2 = T.assemble_subroutine(
            ProtoSubroutine(commands=pre_objs + objs + suf_objs, netqasm_version=(0, 0), app_id=0), **kw)
        got = {"ok": [instr_json(i) for i in sub2.instructions]}
    except Exception as e:  # noqa: BLE001
        got = {"err": classify_error(e)}
    if got != fresh:
        return {"what": "re-using the caller's ICmd objects in another program gives a different subroutine "
                        "than fresh copies", "fresh_objects": fresh, "reused_objects": got}
    return None


def duplicate_some(rng, prog):
    """programs that build IR reuse what they built: repeat some commands later in the program and
    reuse some bracket operands, so that `to_real(..., share_seed)` finds equal values to share"""
    prog = [dict(c) for c in prog]
    idx = [i for i, c in enumerate(prog) if "m" in c]
    for _ in range(rng.choice([0, 1, 1, 2, 3])):
        if not idx:
            break
        i = rng.choice(idx)
        j = rng.randrange(i, len(prog) + 1)
        prog.insert(j, {"m": prog[i]["m"], "a": list(prog[i]["a"]), "o": [dict(o) for o in prog[i]["o"]]})
        idx = [k for k, c in enumerate(prog) if "m" in c]
    brackets = [o for c in prog if "m" in c for o in c["o"] if "e" in o or "s" in o]
    for c in prog:
        if "m" in c and brackets:
            for k, o in enumerate(c["o"]):
                kind = "e" if "e" in o else "s" if "s" in o else None
                same = [b for b in brackets if kind and kind in b]
                if same and rng.random() < 0.3:
                    c["o"][k] = dict(rng.choice(same))
    return prog


# ---------------------------------------------------------------- text rendering


def reg_str(r):
    return f"{BANKS[r[0]]}{r[1]}"


def ri_str(j):
    return reg_str(j["r"]) if "r" in j else str(j["i"])


def op_str(j):
    if "r" in j:
        return reg_str(j["r"])
    if "i" in j:
        return str(j["i"])
    if "lab" in j:
        return j["lab"]
    if "a" in j:
        return f"@{j['a']}"
    if "e" in j:
        return f"@{j['e'][0]}[{ri_str(j['e'][1])}]"
    if "s" in j:
        return f"@{j['s'][0]}[{ri_str(j['s'][1])}:{ri_str(j['s'][2])}]"
    if "t" in j:
        return "{" + j["t"] + "}"
    raise ValueError(j)


def render_text(prog, rng, macros=None):
    """Text of a proto program.  `macros`: list of (key, value) whose uses are planted wherever a
    whole token (mnemonic, register, address base, number) equals the value."""
    macros = macros or []
    by_val = {}
    for k, v in macros:
        by_val.setdefault(v.strip("{}"), []).append(k)

    def m(tok):
        ks = by_val.get(tok)
        if ks and rng.random() < 0.7:
            return "$" + rng.choice(ks)
        return tok

    def mri(j):
        return m(ri_str(j))

    def mop(j):
        if "e" in j:
            return f"{m('@' + str(j['e'][0]))}[{mri(j['e'][1])}]"
        if "s" in j:
            return f"{m('@' + str(j['s'][0]))}[{mri(j['s'][1])}:{mri(j['s'][2])}]"
        return m(op_str(j))

    lines = ["# NETQASM 0.0", "# APPID 0"]
    for k, v in macros:
        lines.append(f"# DEFINE {k} {v}")
    for c in prog:
        if "l" in c:
            lines.append(c["l"] + ":")
            continue
        head = m(c["m"])
        if c["a"]:
            sep = rng.choice([",", ", ", " , "])
            head += "(" + sep.join(m(str(a)) for a in c["a"]) + ")"
        words = [head] + [mop(o) for o in c["o"]]
        line = " ".join(words)
        if rng.random() < 0.15:
            line = "  " + line + "  // " + rng.choice(["comment", "x $a", "jmp L"])
        lines.append(line)
        if rng.random() < 0.05:
            lines.append("")
    return "\n".join(lines) + "\n"


def real_parse_text(text):
    try:
        sub = T.parse_text_subroutine(text)
    except Exception as e:  # noqa: BLE001
        return {"err": classify_error(e)}
    try:
        return {"ok": [instr_json(i) for i in sub.instructions]}
    except Exception as e:  # noqa: BLE001
        return {"err": "unrenderable:" + type(e).__name__}


def real_parse_proto(text):
    try:
        return {"ok": proto_json(T.parse_text_protosubroutine(text))}
    except Exception as e:  # noqa: BLE001
        return {"err": type(e).__name__}


def real_parse_front(text):
    """`parse_text_protosubroutine(text)` in the canonical form of the driver op `asm.parsetext`"""
    try:
        proto = T.parse_text_protosubroutine(text)
        ver = proto.netqasm_version
        return {"ver": list(ver) if ver is not None else None, "app": proto.app_id, "ok": proto_json(proto)}
    except Exception as e:  # noqa: BLE001
        return {"err": type(e).__name__}


COMMENTS = ["// c", "//", "//x//y", "// set R0 1", " // $a", "//#", "\t// tab"]


def render_front(prog, rng, macros=None, wild=False):
    """Text for the whole front end: a (mostly legal) preamble in any order with comments, blank and
    comment-only lines anywhere, indentation, comments after commands and label lines, argument
    brackets with blanks, `{…}` macro values; `wild` adds the malformed forms."""
    body = render_text(prog, rng, macros).split("\n")[2 + len(macros or []):]
    pre = []
    if rng.random() < 0.9:
        pre.append("# NETQASM " + rng.choice(["0.0", "1.0", "10.3", " 2.7 "] + (["1", "a.b", "1.2.3", "+1.0"] if wild else [])))
    if rng.random() < 0.9:
        pre.append("# APPID " + rng.choice(["0", "3", "255"] + (["x", "1 2", "-1"] if wild else [])))
    for k, v in (macros or []):
        pre.append(rng.choice(["# DEFINE %s %s", "#DEFINE %s %s", "#  DEFINE %s %s", "## DEFINE %s %s"]) % (k, v))
    if wild:
        r = rng.random()
        if r < 0.08:
            pre.append("# " + rng.choice(["FOO 1", "NETQASM 1.0", "APPID 1", "DEFINE a", "DEFINE a b c", "DEFINE 1a R0",
                                          "DEFINE a {R0", "DEFINE  x", "", "DEFINE a R1"]))
        elif r < 0.12 and macros:
            pre.append("# DEFINE %s R9" % macros[0][0])
    rng.shuffle(pre)
    out = []
    for ln in pre + [None] + body:
        while rng.random() < 0.12:
            out.append(rng.choice(["", "   ", "\t", rng.choice(COMMENTS), "  " + rng.choice(COMMENTS)]))
        if ln is None:
            continue
        if ln == "":
            continue
        if rng.random() < 0.2:
            ln = rng.choice(["  ", "\t", " "]) + ln
        if rng.random() < 0.2:
            # a comment directly after a label line keeps it a label line; after blanks it does not
            glue = "" if ln.endswith(":") and not wild else rng.choice(["", " ", "  "])
            ln = ln + glue + rng.choice(COMMENTS).lstrip()
        elif rng.random() < 0.1:
            ln = ln + rng.choice([" ", "  ", "\t"])
        out.append(ln)
    if wild and rng.random() < 0.1:
        out.insert(rng.randrange(len(out) + 1), rng.choice(
            ["# APPID 7", "foo R0", "set(1 R0", "set R0 1)", ":", "L :", "1L:", "add R0 R1", "set R0 {x}", "set R0 @1[",
             "array(3,) @0", "array( 3 ) @0", "x::", "LL::", "set  R0 1", "jmp"]))
    return "\n".join(out) + ("\n" if rng.random() < 0.8 else "")


def real_apply_macros(lines, macros):
    try:
        return {"lines": T._apply_macros(list(lines), [list(kv) for kv in macros])}
    except Exception as e:  # noqa: BLE001
        return {"err": type(e).__name__}


def real_group_by_word(line, brackets):
    try:
        return {"w": S.group_by_word(line, brackets=brackets)}
    except ValueError:
        return {"err": "ValueError"}


def real_split_bracket(word, brackets):
    try:
        a, b = T._split_of_bracket(word, brackets)
        return {"w": [a, b]}
    except NetQASMSyntaxError:
        return {"err": "NetQASMSyntaxError"}


# ---------------------------------------------------------------- generators

LABELS = ["L0", "L1", "LOOP", "EXIT", "a", "a1", "IF_EXIT_2"]

# adversarial label names: families whose members are easy to confuse
LABEL_FAMILIES = [
    ["retry", "RETRY", "Retry", "rETRY"],                 # differ only in case
    ["exit", "EXIT", "Exit"],
    ["L", "L1", "L10", "L100", "L_1", "L1_"],             # one a prefix / suffix of another
    ["loop", "loop_", "loop_exit", "exit_loop", "oop"],
    ["a", "aa", "aA", "Aa", "a0", "a_0", "a__0"],          # digits and underscores
    ["x9_", "x_9", "x9", "X9"],
    ["set", "jmp", "add", "SET", "Jmp", "ret_reg", "array"],   # equal to mnemonics
    ["x" * 64, "x" * 65, "X" * 64, "x" * 300],              # very long
    ["IF_EXIT", "IF_EXIT1", "IF_EXIT11", "IF_EXIT_1", "LOOP_EXIT", "LOOP_EXIT1"],   # what the SDK emits
    # names that only START like a register (bank letter + digits + more): labels, also in text
    ["M1_done", "R2D2", "C3PO", "Q0x", "R16x", "R1_", "M0M0", "C15a", "R007x", "Q1Q", "R0_0", "M12_"],
    ["R", "Q", "M", "C", "R_1", "Rx1", "Q_0", "r1", "q0", "m15"],    # bank letter alone / lower case / no digits next
]
# names that are variable names but read as a REGISTER when used as an operand in TEXT
# (`jmp R1` is a register operand): legal for IR input (Label objects), not referable in text
REGISTER_LIKE = ["R1", "Q0", "M0", "C15", "R10", "R01"]


def pick_labels(rng, n, text_safe=False):
    """`n` distinct label names; mostly from one or two confusable families"""
    if n == 0:
        return []
    r = rng.random()
    if r < 0.25:
        pool = list(LABELS)
    else:
        pool = list(rng.choice(LABEL_FAMILIES))
        if rng.random() < 0.4:
            pool += rng.choice(LABEL_FAMILIES)
        if not text_safe and rng.random() < 0.3:
            pool += REGISTER_LIKE
        if rng.random() < 0.3:
            pool += LABELS
    pool = list(dict.fromkeys(pool))
    rng.shuffle(pool)
    return pool[:n]


def gen_value(rng, small=True):
    if small:
        return rng.choice([0, 0, 1, 1, 2, 3, 4, 5, rng.randrange(8)])
    return rng.choice([0, 1, -1, 2, 7, 255, 256, -3, rng.randrange(-50, 1000)])


class Pool:
    """registers a program may name: at most 16 per bank"""

    def __init__(self, rng, n_r=None):
        n_r = rng.choice([1, 2, 3, 4, 6, 8, 12, 14, 15, 16]) if n_r is None else n_r
        idx = list(range(16))
        rng.shuffle(idx)
        self.regs = [[0, i] for i in sorted(idx[:n_r])]
        for bank in (1, 2, 3):
            if rng.random() < 0.35:
                self.regs.append([bank, rng.randrange(16)])

    def pick(self, rng):
        return list(rng.choice(self.regs))


def gen_ri(rng, pool, p_lit):
    if rng.random() < p_lit:
        return {"i": gen_value(rng)}
    return {"r": pool.pick(rng)}


def gen_operand(rng, role, pool, labels, p_lit):
    if role == "u":
        if rng.random() < p_lit:
            return {"i": gen_value(rng)}
        return {"r": pool.pick(rng)}
    if role in "dn":
        return {"r": pool.pick(rng)}
    if role == "i":
        return {"i": gen_value(rng, small=rng.random() < 0.8)}
    if role == "t":
        return {"lab": rng.choice(labels)}
    if role == "a":
        return {"a": rng.randrange(3)}
    if role == "e":
        return {"e": [rng.randrange(3), gen_ri(rng, pool, p_lit)]}
    if role == "s":
        return {"s": [rng.randrange(3), gen_ri(rng, pool, p_lit), gen_ri(rng, pool, p_lit)]}
    raise ValueError(role)


def move_args(rng, cmd):
    """`instr(args) ops`: move a prefix of literal operands into the argument brackets"""
    k = 0
    while k < len(cmd["o"]) and "i" in cmd["o"][k]:
        k += 1
    if k and rng.random() < 0.4:
        n = rng.randrange(1, k + 1)
        cmd["a"] = [o["i"] for o in cmd["o"][:n]]
        cmd["o"] = cmd["o"][n:]
    return cmd


def gen_std_program(rng, max_len=25, text_safe=False):
    """A program over the instructions in scope that means something: registers are mostly
    initialised, arrays declared, branch targets are labels, loops are counted."""
    pool = Pool(rng)
    p_lit = rng.choice([0.2, 0.5, 0.8])
    n = rng.randrange(1, max_len + 1)
    n_labels = rng.choice([0, 1, 2, 3, 4])
    labels = pick_labels(rng, n_labels, text_safe)
    prog = []
    # prologue: initialise most registers, declare and fill arrays
    p_init = rng.choice([0.6, 1.0, 1.0, 1.0])
    for r in pool.regs:
        if rng.random() < p_init:
            prog.append({"m": "set", "a": [], "o": [{"r": list(r)}, {"i": gen_value(rng)}]})
    for a in range(3):
        if rng.random() < 0.85:
            n_el = rng.choice([1, 3, 6, 6, 7, 8, 8])
            size = {"i": n_el} if rng.random() < 0.9 else {"r": pool.pick(rng)}
            prog.append(move_args(rng, {"m": "array", "a": [], "o": [size, {"a": a}]}))
            if "i" in size and rng.random() < 0.85:
                p_fill = rng.choice([0.8, 1.0, 1.0])
                for k in range(n_el):
                    if rng.random() < p_fill:
                        prog.append({"m": "store", "a": [], "o": [{"i": gen_value(rng)}, {"e": [a, {"i": k}]}]})
    body = []
    mns = list(STD)
    weights = [6 if m in ("store", "load", "add", "sub", "beq", "bne", "blt", "bge", "set") else
               (1 if m in ("qalloc", "qfree", "undef", "jmp") else 2) for m in mns]
    for _ in range(n):
        mn = rng.choices(mns, weights)[0]
        roles = STD[mn]
        if "t" in roles and not labels:
            continue
        cmd = {"m": mn, "a": [], "o": [gen_operand(rng, r, pool, labels, p_lit) for r in roles]}
        body.append(move_args(rng, cmd))
    # counted loop: `set c 0; LOOPn: body...; add c c 1; blt c k LOOPn`
    if rng.random() < 0.35 and len(body) >= 2:
        c = pool.pick(rng)
        lab = "CNT"
        i = rng.randrange(len(body))
        j = rng.randrange(i, len(body))
        loop_body = [x for x in body[i:j + 1] if not (x["o"] and x["o"][0] == {"r": c} and STD[x["m"]][0] == "d")]
        one = {"i": 1} if rng.random() < 0.7 else None
        tail = []
        if one is None:
            tail = [{"m": "add", "a": [], "o": [{"r": c}, {"r": c}, {"i": 1}]}]
        else:
            tail = [{"m": "add", "a": [], "o": [{"r": c}, {"r": c}, one]}]
        bound = {"i": rng.randrange(1, 4)}
        body = (body[:i] + [{"m": "set", "a": [], "o": [{"r": c}, {"i": 0}]}, {"l": lab}] + loop_body + tail
                + [{"m": "blt", "a": [], "o": [{"r": c}, bound, {"lab": lab}]}] + body[j + 1:])
    # place labels anywhere: consecutive, leading, trailing
    for lab in labels:
        pos = rng.choice([0, len(body), len(body), rng.randrange(len(body) + 1),
                          rng.randrange(2 * len(body) // 3, len(body) + 1), rng.randrange(2 * len(body) // 3, len(body) + 1)])
        body.insert(pos, {"l": lab})
    prog += body
    # a label in front of the very first instruction (table entry 0), referenced by a branch
    if rng.random() < 0.12:
        lab = "TOP"
        if labels and rng.random() < 0.5:
            lab = labels[0]
            prog = [c for c in prog if c != {"l": lab}]
        prog.insert(0, {"l": lab})
        r = pool.pick(rng)
        prog.append(rng.choice([{"m": "bez", "a": [], "o": [{"r": r}, {"lab": lab}]},
                                {"m": "blt", "a": [], "o": [{"r": r}, {"i": 0}, {"lab": lab}]},
                                {"m": "bne", "a": [], "o": [{"r": r}, {"r": r}, {"lab": lab}]}]))
    if rng.random() < 0.5:
        for r in pool.regs[:3]:
            prog.append({"m": "ret_reg", "a": [], "o": [{"r": list(r)}]})
    return prog


def vanilla_shapes():
    from translate import instr_table as IT

    op, RN, fl = IT._imports()
    out = {}
    for c in VanillaFlavour().instrs:
        out[c.mnemonic] = IT.shape_of(c, op, RN)
    for c in fl.CORE_INSTRUCTIONS:
        out.setdefault(c.mnemonic, IT.shape_of(c, op, RN))
    return out


_SHAPES = None


def gen_wild_program(rng, max_len=14, text_safe=False):
    """Any vanilla instruction, operands that mostly fit the shape but literals, labels,
    templates and wrong kinds anywhere; duplicate / undefined labels; all 16 registers."""
    global _SHAPES
    if _SHAPES is None:
        _SHAPES = vanilla_shapes()
    pool = Pool(rng)
    p_lit = rng.choice([0.1, 0.4, 0.7])
    labels = pick_labels(rng, rng.randrange(1, 4), text_safe)
    all_labels = list(labels)
    prog = []
    mns = sorted(_SHAPES) + ["crot_x"]  # crot_x: a GenericInstr without a vanilla class
    for _ in range(rng.randrange(1, max_len + 1)):
        if rng.random() < 0.2:
            if labels and rng.random() < 0.9:
                prog.append({"l": labels.pop()})
            else:
                prog.append({"l": rng.choice(["L0", "DUP", "EXIT"])})
            continue
        mn = rng.choice(mns)
        shape = _SHAPES.get(mn, ["reg", "reg", "imm8", "imm8"])
        ops = []
        for k in shape:
            r = rng.random()
            if r < 0.08:
                kind = rng.choice(["reg", "imm8", "addr", "entry", "slice", "lab", "tmpl"])
            else:
                kind = k
            if kind == "reg":
                ops.append(gen_ri(rng, pool, p_lit))
            elif kind in ("imm8", "int32"):
                if rng.random() < 0.25:
                    ops.append({"lab": rng.choice(all_labels + (["UNDEFINED"] if rng.random() < 0.1 else []))})
                else:
                    ops.append({"i": gen_value(rng, small=False)})
            elif kind == "addr":
                ops.append({"a": rng.randrange(4)})
            elif kind == "entry":
                ops.append({"e": [rng.randrange(4), gen_ri(rng, pool, p_lit)]})
            elif kind == "slice":
                ops.append({"s": [rng.randrange(4), gen_ri(rng, pool, p_lit), gen_ri(rng, pool, p_lit)]})
            elif kind == "lab":
                ops.append({"lab": rng.choice(all_labels)})
            elif mn.startswith("rot_"):
                # `RotationInstruction.from_operands` accepts Template immediates (pre-compiled
                # subroutines, C06); an `Instr` of the model has no template operand: out of scope
                ops.append({"i": 1})
            else:
                ops.append({"t": "x"})
        if rng.random() < 0.05 and ops:
            ops.pop()
        if rng.random() < 0.03:
            ops.append({"i": 0})
        prog.append(move_args(rng, {"m": mn, "a": [], "o": ops}))
    while labels and rng.random() < 0.8:
        prog.append({"l": labels.pop()})
    return prog


# macro KEYS that are easy to confuse (keys are variable names: no regex metacharacters are legal)
MACRO_KEY_FAMILIES = [
    ["n", "N", "n1", "N1", "nn", "nN"],                     # differ only in case / prefix chains
    ["ms", "MS", "Ms", "ms1", "ms_"],
    ["i", "I", "i2", "I2", "i_2", "i22"],
    ["set", "SET", "jmp", "add", "array"],                  # equal to mnemonics
    ["R1", "r1", "Q0", "q0", "M0", "R"],                     # equal to registers
    ["key" + "x" * 40, "key" + "x" * 41, "KEY" + "x" * 40],  # long
    ["a", "A", "a1", "A1", "a_", "A_", "ab", "aB", "Ab"],
    ["R2D2", "R2", "M1_done", "M1", "Q0x", "Q0", "C3PO", "R16x"],      # keys that start like a register
]


def tokenwise_reference(lines, macros):
    """What macro substitution means (from the statement, no model): every use `$name` — `$`
    followed by the longest run of letters, digits and underscores — is replaced by the value of
    the macro whose key is exactly `name`; everything else is kept."""
    table = {}
    for k, v in macros:
        table.setdefault(k, v.strip("{}"))
    ident = set("abcdefghijklmnopqrstuvwxyzABCDEFGHIJKLMNOPQRSTUVWXYZ0123456789_")
    out = []
    for line in lines:
        res, i = [], 0
        while i < len(line):
            if line[i] == "$":
                j = i + 1
                while j < len(line) and line[j] in ident:
                    j += 1
                name = line[i + 1:j]
                res.append(table[name] if name in table else line[i:j])
                i = j
            else:
                res.append(line[i])
                i += 1
        out.append("".join(res))
    return out


def gen_repeated_literals(rng):
    """straight-line code in which the same literals come back (a, b, a; a, a) and up to three scratch
    registers are in play per instruction: what a "literal already in a register" cache would get wrong"""
    lits = rng.sample([0, 1, 2, 5, 7, 9, 13], 3)
    acc = [0, rng.randrange(4)]
    prog = [{"m": "set", "a": [], "o": [{"r": acc}, {"i": 0}]},
            {"m": "array", "a": [], "o": [{"i": 8}, {"a": 0}]}]
    pattern = rng.choice([[0, 1, 0], [0, 0], [0, 1, 2, 0, 1], [0, 1, 0, 1], [2, 0, 2, 2, 1, 0]])
    for k in pattern + [rng.randrange(3) for _ in range(rng.randrange(0, 4))]:
        a = lits[k]
        r = rng.random()
        if r < 0.5:
            prog.append({"m": rng.choice(["add", "sub"]), "a": [], "o": [{"r": acc}, {"r": acc}, {"i": a}]})
        elif r < 0.7:
            prog.append({"m": "addm", "a": [], "o": [{"r": acc}, {"i": a}, {"i": lits[(k + 1) % 3]}, {"i": 64}]})
        elif r < 0.85:
            prog.append({"m": "store", "a": [], "o": [{"i": a}, {"e": [0, {"i": lits[(k + 1) % 3] % 8}]}]})
        else:
            prog.append({"m": "add", "a": [], "o": [{"r": acc}, {"i": a}, {"i": a}]})
    prog += [{"m": "ret_reg", "a": [], "o": [{"r": acc}]}, {"m": "ret_arr", "a": [], "o": [{"a": 0}]}]
    return prog


def sequential_reference(lines, macros):
    """What `_apply_macros` promises for ANY macro list (from the statement, no model): the macros are
    applied one after the other in preamble order; each pass replaces every use `$name` (longest run of
    letters, digits, underscores) whose name is exactly the key.  Text produced by an earlier pass is
    seen by the later passes, so a value may use macros that are defined LATER."""
    if not lines:
        return []
    body = "\n".join(lines)
    ident = set("abcdefghijklmnopqrstuvwxyzABCDEFGHIJKLMNOPQRSTUVWXYZ0123456789_")
    for k, v in macros:
        v = v.strip("{}")
        res, i = [], 0
        while i < len(body):
            if body[i] == "$":
                j = i + 1
                while j < len(body) and body[j] in ident:
                    j += 1
                res.append(v if body[i + 1:j] == k else body[i:j])
                i = j
            else:
                res.append(body[i])
                i += 1
        body = "".join(res)
    return body.split("\n")


def gen_chained_macros(rng):
    """macros whose values use other macros, defined later or earlier, depth 2-3; and a body using them"""
    leaves = [("acc", "R0"), ("step", "R1"), ("arr", "@0"), ("one", "1")]
    mids = [("bump", "{add $acc $acc $step}"), ("cell", "$arr[$acc]"), ("inc", "{add $acc $acc $one}")]
    tops = [("twice", "{$bump}"), ("put", "{store $step $cell}")]
    chosen = rng.sample(leaves, rng.randrange(2, 5)) + rng.sample(mids, rng.randrange(1, 4))
    if rng.random() < 0.5:
        chosen += rng.sample(tops, rng.randrange(1, 3))
    order = rng.choice(["uses-first", "defs-first", "shuffled"])
    if order == "uses-first":
        chosen = chosen[::-1]
    elif order == "shuffled":
        rng.shuffle(chosen)
    keys = [k for k, _ in chosen]
    body = []
    for _ in range(rng.randrange(1, 5)):
        k = rng.choice(keys)
        body.append(rng.choice(["$%s", "  $%s  ", "set $%s 1", "$%s // c"]) % k if rng.random() < 0.8 else "set R5 2")
    return chosen, body, order


def tokenwise_applicable(lines, macros):
    """hypotheses of `macros_tokenwise`: no value contains `$` or a newline, and no use is directly followed by `$`"""
    if any("$" in v or "\n" in v for _, v in macros):
        return False
    ident = set("abcdefghijklmnopqrstuvwxyzABCDEFGHIJKLMNOPQRSTUVWXYZ0123456789_")
    for line in lines:
        i = 0
        while i < len(line):
            if line[i] == "$":
                j = i + 1
                while j < len(line) and line[j] in ident:
                    j += 1
                if j < len(line) and line[j] == "$":
                    return False
                i = j
            else:
                i += 1
    return True


def gen_macros(rng, prog):
    """macro definitions whose values are whole tokens of the program; keys include names that
    are prefixes of each other"""
    toks = set()
    for c in prog:
        if "l" in c:
            continue
        toks.add(c["m"])
        for o in c["o"]:
            if "r" in o:
                toks.add(reg_str(o["r"]))
            elif "i" in o:
                toks.add(str(o["i"]))
            elif "a" in o:
                toks.add("@" + str(o["a"]))
            elif "e" in o:
                toks.add("@" + str(o["e"][0]))
                toks.add(ri_str(o["e"][1]))
            elif "s" in o:
                toks.add("@" + str(o["s"][0]))
    toks = sorted(toks)
    keys = rng.choice(MACRO_KEY_FAMILIES + [["a", "a1", "a_b", "ab", "q", "q0", "ms", "i", "i2", "x", "x_", "R", "Rr"]])
    keys = list(keys)
    if rng.random() < 0.4:
        keys += rng.choice(MACRO_KEY_FAMILIES)
    keys = list(dict.fromkeys(keys))
    rng.shuffle(keys)
    out = []
    for k in keys[:rng.randrange(0, 6)]:
        if not toks:
            break
        v = rng.choice(toks)
        if rng.random() < 0.2:
            v = "{" + v + "}"
        out.append((k, v))
    return out


# ---------------------------------------------------------------- direct interpreter of the SOURCE


class Fault(Exception):
    pass


_RET_ARR_ALIASES = None


def ret_arr_aliases():
    """Does `ret_arr` hand the executor's own list to the shared memory (so that later stores
    show through)?  This is executor behaviour (C04, F25), not the assembler's; the source
    interpreter follows whatever the executor under test does."""
    global _RET_ARR_ALIASES
    if _RET_ARR_ALIASES is None:
        prog = [{"m": "set", "a": [], "o": [{"r": [0, 0]}, {"i": 1}]},
                {"m": "array", "a": [], "o": [{"r": [0, 0]}, {"a": 0}]},
                {"m": "ret_arr", "a": [], "o": [{"a": 0}]},
                {"m": "set", "a": [], "o": [{"r": [0, 1]}, {"i": 0}]},
                {"m": "store", "a": [], "o": [{"r": [0, 0]}, {"e": [0, {"r": [0, 1]}]}]}]
        sub = T.assemble_subroutine(to_real(prog), replace_constants=False)
        _RET_ARR_ALIASES = run_real(sub, [])["shm_arrays"] == {0: [1]}
    return _RET_ARR_ALIASES


def run_source(prog, unit_size=3, max_steps=400, init_regs=None):
    """Direct meaning of a proto program: labels are no-ops, a literal evaluates to itself, a
    branch to L continues after L.  Instruction semantics = the instruction reference (as the
    base Executor implements it).  Returns the final observable state."""
    regs = dict(init_regs or {})
    arrays = {}
    shm_regs = {}
    shm_arrays = {}
    unit = [False] * unit_size
    label_pos = {}
    for i, c in enumerate(prog):
        if "l" in c and c["l"] not in label_pos:
            label_pos[c["l"]] = i

    def rd(j):  # value of a register-or-literal
        if "i" in j:
            return j["i"]
        return regs.get(tuple(j["r"]))

    def need(v):
        if v is None:
            raise Fault("undefined")
        return v

    def entry(j):
        a, ri = j["e"]
        idx = need(rd(ri))
        return a, idx

    pc = 0
    steps = 0
    status = "halt"
    fault_at = None
    while pc < len(prog):
        steps += 1
        if steps > max_steps:
            status = "steps"
            break
        c = prog[pc]
        if "l" in c:
            pc += 1
            continue
        mn = c["m"]
        ops = [{"i": a} for a in c["a"]] + c["o"]
        nxt = pc + 1
        try:
            if mn == "set":
                regs[tuple(ops[0]["r"])] = ops[1]["i"]
            elif mn == "lea":
                regs[tuple(ops[0]["r"])] = ops[1]["a"]
            elif mn == "array":
                n = need(rd(ops[0]))
                if n > 100000:  # a loop that keeps doubling a register: not worth the memory
                    status = "resource"
                    break
                arrays[ops[1]["a"]] = [None] * n
            elif mn == "store":
                v = need(rd(ops[0]))
                a, idx = entry(ops[1])
                if a not in arrays:
                    raise Fault("no array")
                try:
                    arrays[a][idx] = v
                except IndexError:
                    raise Fault("index")
            elif mn == "load":
                a, idx = entry(ops[1])
                if a not in arrays:
                    raise Fault("no array")
                try:
                    v = arrays[a][idx]
                except IndexError:
                    raise Fault("index")
                regs[tuple(ops[0]["r"])] = need(v)
            elif mn == "undef":
                a, idx = entry(ops[0])
                if a not in arrays:
                    raise Fault("no array")
                try:
                    arrays[a][idx] = None
                except IndexError:
                    raise Fault("index")
            elif mn == "jmp":
                nxt = label_pos[ops[0]["lab"]] + 1
            elif mn in ("bez", "bnz"):
                a = rd(ops[0])
                cond = (a == 0) if mn == "bez" else (a != 0)
                if cond:
                    nxt = label_pos[ops[1]["lab"]] + 1
            elif mn in ("beq", "bne", "blt", "bge"):
                a, b = rd(ops[0]), rd(ops[1])
                if mn in ("blt", "bge") and (a is None or b is None):
                    raise Fault("undefined")
                cond = {"beq": a == b, "bne": a != b}.get(mn)
                if cond is None:
                    cond = (a < b) if mn == "blt" else (a >= b)
                if cond:
                    nxt = label_pos[ops[2]["lab"]] + 1
            elif mn in ("add", "sub", "addm", "subm"):
                mod = None
                if mn.endswith("m"):
                    mod = rd(ops[3])
                    if mod is not None and mod < 1:
                        raise Fault("modulus")
                a, b = need(rd(ops[1])), need(rd(ops[2]))
                if mn.endswith("m"):
                    need(mod)
                v = a + b if mn.startswith("add") else a - b
                if mod is not None:
                    v %= mod
                regs[tuple(ops[0]["r"])] = v
            elif mn == "qalloc":
                q = need(rd(ops[0]))
                if q >= len(unit):
                    raise Fault("outside unit module")
                try:
                    if unit[q]:
                        raise Fault("already allocated")
                    unit[q] = True
                except IndexError:
                    raise Fault("index")
            elif mn == "qfree":
                q = need(rd(ops[0]))
                try:
                    if not unit[q]:
                        raise Fault("not allocated")
                    unit[q] = False
                except IndexError:
                    raise Fault("index")
            elif mn == "ret_reg":
                r = tuple(ops[0]["r"])
                shm_regs[r] = need(regs.get(r))
            elif mn == "ret_arr":
                a = ops[0]["a"]
                if a not in arrays:
                    raise Fault("no array")
                shm_arrays[a] = arrays[a] if ret_arr_aliases() else list(arrays[a])
            else:
                raise ValueError("instruction outside the scope of the interpreter: " + mn)
        except Fault:
            status = "fault"
            fault_at = pc
            break
        pc = nxt
    return {"status": status, "fault_at": fault_at, "regs": regs, "arrays": arrays, "shm_regs": shm_regs,
            "shm_arrays": shm_arrays, "unit": unit, "steps": steps}


# ---------------------------------------------------------------- the real executor


class StepLimit(Exception):
    pass


class PlainExecutor(Executor):
    """the real base executor; only the node id (no network here) and a step guard are added"""

    def __init__(self, max_steps):
        super().__init__(name="c03")
        self._c03_steps = 0
        self._c03_max = max_steps
        self.fault_line = None
        self.step_limit = False

    @property
    def node_id(self):
        return 0

    def _execute_command(self, subroutine_id, command):
        self._c03_steps += 1
        if self._c03_steps > self._c03_max:
            self.step_limit = True
            raise StepLimit()
        return (yield from super()._execute_command(subroutine_id, command))

    def _handle_command_exception(self, exc, prog_counter, traceback_str):
        self.fault_line = prog_counter
        raise Fault(f"At line {prog_counter}: {type(exc).__name__}")


def run_real(sub, named_regs, unit_size=3, max_steps=4000, init_regs=None):
    """executes an assembled Subroutine on the real base Executor; final observable state"""
    SharedMemoryManager.reset_memories()
    ex = PlainExecutor(max_steps)
    ex.init_new_application(app_id=0, max_qubits=unit_size)
    for (b, i), v in (init_regs or {}).items():
        ex._set_register(0, O.Register(RegisterName(b), i), v)
    status = "halt"
    try:
        list(ex.execute_subroutine(sub))
    except Fault:
        status = "steps" if ex.step_limit else "fault"
    regs = {}
    for (b, i) in named_regs:
        v = ex._get_register(0, O.Register(RegisterName(b), i))
        if v is not None:
            regs[(b, i)] = v
    arrays = {a: list(v) for a, v in ex._app_arrays[0]._arrays.items()}
    shm = ex._shared_memories[0]
    shm_regs = {}
    for b in range(4):
        for i in range(16):
            v = shm.get_register(O.Register(RegisterName(b), i))
            if v is not None:
                shm_regs[(b, i)] = v
    shm_arrays = {a: list(v) for a, v in shm._arrays._arrays.items()}
    unit = [p is not None for p in ex._qubit_unit_modules[0]]
    SharedMemoryManager.reset_memories()
    return {"status": status, "fault_line": ex.fault_line, "regs": regs, "arrays": arrays, "shm_regs": shm_regs,
            "shm_arrays": shm_arrays, "unit": unit, "steps": ex._c03_steps}


def named_registers(prog):
    out = set()
    for c in prog:
        if "l" in c:
            continue
        for o in c["o"]:
            if "r" in o:
                out.add(tuple(o["r"]))
            for key in ("e", "s"):
                if key in o:
                    for ri in o[key][1:]:
                        if "r" in ri:
                            out.add(tuple(ri["r"]))
    return sorted(out)


def in_scope(prog):
    """source programs the interpreter gives a meaning to: instructions of STD, operands that fit
    their role (literals only where a value is read), every branch target a defined label"""
    defined = {c["l"] for c in prog if "l" in c}
    for c in prog:
        if "l" in c:
            continue
        roles = STD.get(c["m"])
        ops = [{"i": a} for a in c["a"]] + c["o"]
        if roles is None or len(roles) != len(ops):
            return False
        for r, o in zip(roles, ops):
            if r == "u" and not ("r" in o or "i" in o):
                return False
            if r in "dn" and "r" not in o:
                return False
            if r == "i" and "i" not in o:
                return False
            if r == "t" and not ("lab" in o and o["lab"] in defined):
                return False
            if r == "a" and "a" not in o:
                return False
            if r == "e" and "e" not in o:
                return False
    return True


def oracle(prog, unit_size=3, reserved=(), static=True):
    """None if the assembled program behaves like the source, else a description.  Programs the
    assembler rejects are skipped unless the rejection itself contradicts the statement
    (a well-formed program with a free register must assemble).  `reserved` registers hold live
    values of an earlier subroutine: they are given values before both runs and compared after."""
    reserved = [tuple(r) for r in reserved]
    res, sub = real_assemble(prog, reserved)
    if sub is not None and static:
        bad = static_oracle(prog, res["ok"], reserved)
        if bad is not None:
            return bad
    if not in_scope(prog):
        return None
    labels = [c["l"] for c in prog if "l" in c]
    if sub is None:
        named_r = {r for r in named_registers(prog) if r[0] == 0} | {r for r in reserved if r[0] == 0 and 0 <= r[1] < 16}
        need_scratch = max([0] + [count_materialised(c) for c in prog if "m" in c])
        if len(set(labels)) == len(labels) and len(named_r) + need_scratch <= 16 and all(0 <= r[1] < 16 for r in named_r):
            return {"what": "assembler rejects a well-formed program", "error": res}
        return None
    init = {r: 100 + 16 * r[0] + r[1] for r in reserved if 0 <= r[0] < 4 and 0 <= r[1] < 16}
    src = run_source(prog, unit_size, init_regs=init)
    if src["status"] in ("steps", "resource"):
        return None
    watch = sorted(set(named_registers(prog)) | set(init))
    real = run_real(sub, watch, unit_size, init_regs=init)
    if real["status"] == "steps":
        return None
    diffs = {}
    for k in ("status", "regs", "arrays", "shm_regs", "shm_arrays", "unit"):
        a, b = src[k], real[k]
        if a != b:
            diffs[k] = {"source": _plain(a), "assembled": _plain(b)}
    if diffs:
        return {"what": "assembled subroutine behaves differently from the source program", "diff": diffs,
                "assembled": res.get("ok"), "reserved": [list(r) for r in reserved]}
    return None


# ---------------------------------------------------------------- static oracle (no execution)

_CLS_MN = None


def _class_mnemonics():
    global _CLS_MN, _SHAPES
    if _CLS_MN is None:
        from translate import instr_table as IT

        _, _, fl = IT._imports()
        _CLS_MN = {}
        for c in list(fl.CORE_INSTRUCTIONS) + list(VanillaFlavour().instrs):
            _CLS_MN[c.__module__.split(".")[-1] + "." + c.__name__] = c.mnemonic
    if _SHAPES is None:
        _SHAPES = vanilla_shapes()
    return _CLS_MN, _SHAPES


def static_oracle(prog, assembled, reserved=()):
    """The statement read on the assembler OUTPUT alone, for any vanilla instruction (also those
    that are never executed here, e.g. `wait_all @a[R1:R2]`):
      * the output is, in source order, one block per source instruction: the `set`s that
        materialise its literals (every literal that is not an immediate of the instruction,
        and every literal inside brackets), then the instruction itself — nothing dropped,
        duplicated or reordered;
      * every register written by an inserted `set` is an R register that the source program
        names nowhere (top level, entry index, slice start/stop) and that is not reserved, and
        the scratch registers of one instruction are distinct;
      * the operands are the source operands with exactly these literals replaced by their
        scratch registers, and every label replaced by the position of the block that follows it.
    Returns None or a description."""
    cls_mn, shapes = _class_mnemonics()
    named = set(named_registers(prog)) | {tuple(r) for r in reserved}
    # first pass: block layout from the source alone
    layout = []  # (command, [(pos, sub, value)], start)
    labels = {}
    pending = []
    pos = 0
    for c in prog:
        if "l" in c:
            pending.append(c["l"])
            continue
        shape = shapes.get(c["m"])
        if shape is None:
            return None
        ops = [{"i": a} for a in c["a"]] + c["o"]
        if len(ops) != len(shape):
            return {"what": "assembler accepts an instruction with a wrong number of operands", "command": c}
        lits = []
        for j, (k, o) in enumerate(zip(shape, ops)):
            if "i" in o and k == "reg":
                lits.append((j, None, o["i"]))
            elif "e" in o and "i" in o["e"][1]:
                lits.append((j, 0, o["e"][1]["i"]))
            elif "s" in o:
                for sub_i in (0, 1):
                    if "i" in o["s"][1 + sub_i]:
                        lits.append((j, sub_i, o["s"][1 + sub_i]["i"]))
        for lab in pending:
            labels.setdefault(lab, pos)
        pending = []
        layout.append((c, ops, lits, pos))
        pos += len(lits) + 1
    for lab in pending:
        labels.setdefault(lab, pos)
    if pos != len(assembled):
        return {"what": "source instructions dropped, duplicated or reordered (static)",
                "expected_length": pos, "assembled": assembled}
    for c, ops, lits, start in layout:
        sets = assembled[start:start + len(lits)]
        img = assembled[start + len(lits)]
        scratch = []
        for (j, sub_i, v), st in zip(lits, sets):
            if st["c"] != "core.SetInstruction" or st["o"][1] != {"i": v} or "r" not in st["o"][0]:
                return {"what": "source instructions dropped, duplicated or reordered (static)",
                        "command": c, "found": st, "assembled": assembled}
            d = tuple(st["o"][0]["r"])
            if d in named or d[0] != 0 or d in scratch:
                why = ("reserved" if d in {tuple(r) for r in reserved} else
                       "named by the source program" if d in named else "not a fresh R register")
                return {"what": "a literal is materialised in a register that is " + why + " (static)",
                        "register": list(d), "command": c, "assembled": assembled,
                        "reserved": [list(r) for r in reserved]}
            scratch.append(d)
        if cls_mn.get(img["c"]) != c["m"] or len(img["o"]) != len(ops):
            return {"what": "source instructions dropped, duplicated or reordered (static)",
                    "command": c, "found": img, "assembled": assembled}
        sc = {(j, sub_i): d for (j, sub_i, _v), d in zip(lits, scratch)}
        for j, (o, io) in enumerate(zip(ops, img["o"])):
            def bracket(ri, sub_i):
                return list(sc[(j, sub_i)]) if "i" in ri else list(ri["r"])
            if "i" in o:
                want = {"r": list(sc[(j, None)])} if (j, None) in sc else {"i": o["i"]}
            elif "lab" in o:
                want = {"i": labels.get(o["lab"])}
            elif "e" in o:
                want = {"e": [o["e"][0]] + bracket(o["e"][1], 0)}
            elif "s" in o:
                want = {"s": [o["s"][0]] + bracket(o["s"][1], 0) + bracket(o["s"][2], 1)}
            else:
                want = o
            if io != want:
                what = ("a branch does not land on the instruction that followed its label (static)" if "lab" in o
                        else "an operand is not the source operand with its literals materialised (static)")
                return {"what": what, "command": c, "position": j, "expected": want, "found": io,
                        "assembled": assembled}
    return None


def gen_reserved(rng, prog):
    """registers an earlier subroutine left live: mostly R registers the program does not name"""
    r = rng.random()
    if r < 0.45:
        return []
    k = rng.choice([1, 1, 2, 3, 5, 8, 12, 15])
    out = set()
    for _ in range(k):
        if rng.random() < 0.9:
            out.add((0, rng.randrange(16)))
        else:
            out.add((rng.randrange(1, 4), rng.randrange(16)))
    return sorted(out)


EXC_POS = None


def count_materialised(c):
    """number of literals of a command that need a scratch register (from the statement:
    every literal that is not an immediate of the instruction)"""
    roles = STD.get(c["m"], "")
    ops = [{"i": a} for a in c["a"]] + c["o"]
    n = 0
    for r, o in zip(roles, ops):
        if r == "u" and "i" in o:
            n += 1
        if "e" in o and "i" in o["e"][1]:
            n += 1
    return n


def _plain(x):
    if isinstance(x, dict):
        return {str(k): _plain(v) for k, v in x.items()}
    if isinstance(x, (list, tuple)):
        return [_plain(v) for v in x]
    return x


# ---------------------------------------------------------------- shrinking


def shrink(prog, fails, budget=400):
    """greedy delta debugging: drop commands, then simplify operands, while `fails(prog)`"""
    prog = copy.deepcopy(prog)
    n = 0
    changed = True
    while changed and n < budget:
        changed = False
        i = 0
        while i < len(prog) and n < budget:
            cand = prog[:i] + prog[i + 1:]
            n += 1
            if cand and fails(cand):
                prog = cand
                changed = True
            else:
                i += 1
    return prog


# ---------------------------------------------------------------- driver helper


def batch(driver, requests, limit=24000):
    """`Driver.batch` writes 200 requests before it reads an answer; with program-sized lines
    that exceeds the pipe capacity in both directions.  Send size-bounded groups instead."""
    import json as _json

    out = []
    group, size = [], 0
    for r in requests:
        n = 3 * len(_json.dumps(r, separators=(",", ":"))) + 64  # the answer may be longer than the request
        if group and (size + n > limit or len(group) >= 150):
            out += driver.batch(group)
            group, size = [], 0
        group.append(r)
        size += n
    if group:
        out += driver.batch(group)
    return out
