"""C10 — real-code side: Bell-state corrections of the EPR receive APIs.

Two uses of the real SDK:

* `emit(sc)`     builds a scenario on a real connection/builder WITHOUT executing it and returns the
                 emitted proto commands of the EPR receive operation in a canonical textual form
                 (own renderer, not `__str__`) together with the builder bookkeeping the Lean model
                 needs as input (active registers, used labels, array addresses, handle ids).
* `execute(sc)`  runs the scenario SDK -> bytes -> real Executor on a state-vector back end with a
                 modelled remote partner: when the link-layer response for pair i is injected, the
                 reported Bell state is written on (fresh local physical qubit, extra remote qubit).
                 Afterwards the joint state of every kept qubit with its partner and the state of
                 every other live qubit is inspected (model-free oracle).

A scenario is a plain dict:
  hw      "generic" | "nv" | "nvc" (NV hardware config + NV transpiler), all with 7 qubits; or a swept
          configuration "g<k>" = GenericHardwareConfig(k), "n<k>" = NVHardwareConfig(k), "c<k>" = NV(k) +
          NV transpiler, with k also the application's qubit budget
  form10  deliver the link-layer responses as qlink-interface 1.0 objects (converted by the real
          `response_from_qlink_1_0`), Bell state as the integer the SDK reads
  api     "recv_keep" | "recv_keep_with_info" | "recv_rsp" | "recv_rsp_with_info" | "recv_measure"
  mode    "plain" | "post" (post routine, not sequential) | "seq" (post routine, sequential)
  n       number of pairs;  live  number of other live qubits;  expect  expect_phi_plus
  freed   indices (into the live qubits, creation order) measured again BEFORE the EPR request, so
          that the virtual-id space has holes and the new pairs get non-consecutive ids
  bells   tuple of BellState values reported by the link (execute only)
"""
import itertools

from harness import pipeline as P  # noqa: F401  (sets up the repo import + logging)

import numpy as np  # noqa: E402
from netqasm.lang.ir import BranchLabel, GenericInstr, ICmd  # noqa: E402
from netqasm.lang.operand import Address, ArrayEntry, ArraySlice, Label, Register  # noqa: E402
from netqasm.qlink_compat import BellState, LinkLayerOKTypeK, LinkLayerOKTypeM, ReturnType  # noqa: E402
from netqasm.sdk.build_types import GenericHardwareConfig, NVHardwareConfig  # noqa: E402
from netqasm.sdk.epr_socket import EPRSocket  # noqa: E402
from netqasm.sdk.qubit import Qubit  # noqa: E402

KEEP_APIS = ("recv_keep", "recv_keep_with_info", "recv_rsp", "recv_rsp_with_info")
MAX_QUBITS = 7

# ------------------------------------------------------------------ rendering (own, not __str__)


def _opd(o):
    if isinstance(o, Register):
        return f"{o.name.name}{o.index}"
    if isinstance(o, bool):
        raise TypeError("bool operand")
    if isinstance(o, int):
        return str(o)
    if isinstance(o, Address):
        return f"@{_opd(o.address)}"
    if isinstance(o, ArrayEntry):
        return f"@{_opd(o.address.address)}[{_opd(o.index)}]"
    if isinstance(o, ArraySlice):
        return f"@{_opd(o.address.address)}[{_opd(o.start)}:{_opd(o.stop)}]"
    if isinstance(o, Label):
        return o.name
    raise TypeError(f"operand {o!r}")


def render(cmd):
    if isinstance(cmd, BranchLabel):
        return cmd.name + ":"
    assert isinstance(cmd, ICmd)
    mn = cmd.instruction.name.lower()
    args = "(" + ",".join(str(a) for a in cmd.args) + ")" if cmd.args else ""
    return " ".join([mn + args] + [_opd(o) for o in cmd.operands])


# ------------------------------------------------------------------ building a scenario


def hw_kind(hw):
    """(kind, qubit count) of a hardware name: kind 'generic' or 'nv' (the config CLASS)."""
    if hw == "generic":
        return "generic", MAX_QUBITS
    if hw in ("nv", "nvc"):
        return "nv", MAX_QUBITS
    if len(hw) >= 2 and hw[0] in "gnc" and hw[1:].isdigit():
        return ("generic" if hw[0] == "g" else "nv"), int(hw[1:])
    raise ValueError(hw)


def comm_qubits(hw):
    """communication qubits of the configuration, as the real config object reports them"""
    return _hardware(hw)["hardware_config"].comm_qubit_count


def _hardware(hw):
    from netqasm.sdk.transpile import NVSubroutineTranspiler
    kind, k = hw_kind(hw)
    cfg = GenericHardwareConfig(k) if kind == "generic" else NVHardwareConfig(k)
    out = dict(hardware_config=cfg, max_qubits=k)
    if hw == "nvc" or hw[0] == "c":
        out["compiler"] = NVSubroutineTranspiler
    return out


def prepare_live(q, k):
    """Put live qubit k in a state that is no eigenstate of X, Y or Z (so that any stray Pauli or
    rotation on it is visible)."""
    q.rot_X(n=1 + (k % 3), d=3)
    q.rot_Z(n=3 + 2 * (k % 2), d=3)


def _post_routine(sc):
    kind = sc.get("post", "free")

    def post(conn, q, pair):
        if kind == "none":
            return
        if kind == "gate":
            q.H()
            q.H()
        q.free()
    return post


CREATE_APIS = ("create_keep", "create_keep_with_info", "create_rsp", "create_measure")


def _call_create(sock, sc):
    api, mode, n = sc["api"], sc["mode"], sc["n"]
    kw = dict(number=n)
    if api.startswith("create_keep"):
        if mode in ("post", "seq"):
            kw["post_routine"] = _post_routine(sc)
            kw["sequential"] = mode == "seq"
    elif mode != "plain":
        raise ValueError("post routines exist for create_keep only")
    out = getattr(sock, api)(**kw)
    if api == "create_keep_with_info":
        return out[0], out[1]
    if api in ("create_rsp", "create_measure"):
        return [], out
    return out, None


def _call_api(sock, sc, conn):
    api, mode, n = sc["api"], sc["mode"], sc["n"]
    if api in CREATE_APIS:
        return _call_create(sock, sc)
    kw = dict(number=n, expect_phi_plus=sc.get("expect", True))
    if api in ("recv_keep", "recv_keep_with_info"):
        if mode in ("post", "seq"):
            kw["post_routine"] = _post_routine(sc)
            kw["sequential"] = mode == "seq"
        if sc.get("minfid"):
            # the min-fidelity retry loop around the request (the link reports goodness 0, so the first attempt
            # already satisfies the constraint)
            kw["min_fidelity_all_at_end"] = int(sc["minfid"])
            kw["max_tries"] = int(sc.get("max_tries", 3))
    elif mode != "plain":
        raise ValueError("post routines exist for recv_keep only")
    if api == "recv_measure" and sc.get("via") == "builder":
        from netqasm.sdk.build_epr import EntRequestParams
        rl, rr = tuple(sc["rot_local"]), tuple(sc["rot_remote"])
        out = conn.builder.sdk_recv_epr_measure(params=EntRequestParams(
            remote_node_id=sock.remote_node_id, epr_socket_id=sock._epr_socket_id, number=n,
            post_routine=None, sequential=False, expect_phi_plus=sc.get("expect", True),
            rotations_local=rl, rotations_remote=rr))
        return [], out
    out = getattr(sock, api)(**kw)
    if api.endswith("_with_info"):
        return out[0], out[1]
    if api == "recv_measure":
        return [], out
    return out, None


class BuildRaises(Exception):
    pass


def emit(sc):
    """Real builder output for the scenario (not executed)."""
    P.reset_globals()
    sock = EPRSocket("bob")
    conn = P.PipelineConnection("alice", executor=P.TraceExecutor(name="alice"), epr_sockets=[sock],
                                **_hardware(sc["hw"]))
    b = conn.builder
    live = [Qubit(conn) for _ in range(sc["live"])]
    for k in sc.get("freed", ()):
        live[k].measure()
    live = [q for k, q in enumerate(live) if k not in sc.get("freed", ())]
    for _ in range(sc.get("regs", 0)):
        b.new_register()
    mm = b._mem_mgr
    pre = {
        "act": sorted(r.index for r in mm._active_registers) if hasattr(mm, "_active_registers")
        else sorted(i for i in range(16) if mm.is_register_active(Register(_RN.R, i))),
        "labels": sorted(b._label_mgr._labels),
        "n_pending": len(b._pending_commands),
        "next_array": (mm._used_array_addresses[-1] + 1) if mm._used_array_addresses else 0,
    }
    try:
        qubits, infos = _call_api(sock, sc, conn)
    except (AssertionError, ValueError, RuntimeError) as e:
        _abandon(conn)
        raise BuildRaises(f"{type(e).__name__}: {e}")
    cmds = list(b._pending_commands)
    new = cmds[pre["n_pending"]:] if _is_prefix(cmds, pre["n_pending"]) else cmds
    arrays = {a.address: a for a in mm.get_arrays_to_return()}
    out = {
        "pre": pre,
        "cmds": [render(c) for c in new],
        "all_cmds": [render(c) for c in cmds],
        "handle_ids": [q.qubit_id for q in qubits],
        "live_ids": [q.qubit_id for q in live],
        "arrays": {a: (len(arr), list(arr._init_values) if arr._init_values is not None else None)
                   for a, arr in arrays.items()},
        "act_after": sorted(i for i in range(16) if mm.is_register_active(Register(_RN.R, i))),
    }
    _abandon(conn)
    return out


from netqasm.lang.encoding import RegisterName as _RN  # noqa: E402


def _is_prefix(cmds, k):
    return True


def _abandon(conn):
    """Drop the connection without flushing."""
    try:
        conn.builder._pending_commands = []
        for q in list(conn.builder._mem_mgr.get_active_qubits()):
            q.active = False
    except Exception:
        pass
    P.reset_globals()


# ------------------------------------------------------------------ executing with a remote partner

_S = 1 / np.sqrt(2)
BELL_VECS = {
    BellState.PHI_PLUS.value: np.array([_S, 0, 0, _S], dtype=complex),
    BellState.PHI_MINUS.value: np.array([_S, 0, 0, -_S], dtype=complex),
    BellState.PSI_PLUS.value: np.array([0, _S, _S, 0], dtype=complex),
    BellState.PSI_MINUS.value: np.array([0, _S, -_S, 0], dtype=complex),
}


class BellConn(P.PipelineConnection):
    """Delivers one link-layer response per `wait`, writing the reported Bell state between a fresh
    local physical qubit and a remote partner qubit of the state vector."""

    def configure(self, sc, n_local):
        self.sc = sc
        self.n_local = n_local
        self.delivered = 0
        self.pairs = []  # (local physical, remote index, bell)
        self.next_fresh = None

    def _fresh_physical(self):
        """Pairs arrive on never-used physical qubits taken from the top of the local range (the
        executor allocates its own from 0 upwards), so a delivery never lands on left-overs."""
        ex = self.executor
        p = self.n_local - 1 - len(self.pairs)
        taken = set(ex._used_physical_qubit_addresses)
        for u in ex._qubit_unit_modules.values():
            taken |= {q for q in u if q is not None}
        if p in taken or p < 0:
            raise RuntimeError("no fresh physical qubit")
        return p

    def on_wait(self):
        ex, sc = self.executor, self.sc
        before = len(ex._pending_epr_responses)
        if before:
            ex._handle_pending_epr_responses()
            if len(ex._pending_epr_responses) < before:
                return True
        if self.delivered >= sc["n"]:
            return False
        i = self.delivered
        b = sc["bells"][i]
        self.delivered += 1
        if sc.get("form10"):
            import qlink_interface as ql10
            common = dict(create_id=0, directionality_flag=1, sequence_number=i, purpose_id=0,
                          remote_node_id=1, goodness=0, bell_state=int(b))
            if sc["api"] == "recv_measure":
                ex._handle_epr_response(ql10.ResMeasureDirectly(
                    measurement_outcome=sc["raw"][i], measurement_basis=ql10.MeasurementBasis(0), **common))
                return True
            p = self._fresh_physical()
            r = self.n_local + i
            _write_pair(ex, p, r, BELL_VECS[b])
            self.pairs.append((p, r, b))
            ex._handle_epr_response(ql10.ResCreateAndKeep(logical_qubit_id=p, time_of_goodness=0, **common))
            return True
        if sc["api"] == "recv_measure":
            raw = sc["raw"][i]
            ex._handle_epr_response(LinkLayerOKTypeM(
                type=ReturnType.OK_M, create_id=0, measurement_outcome=raw, measurement_basis=0,
                directionality_flag=1, sequence_number=i, purpose_id=0, remote_node_id=1,
                goodness=0, bell_state=BellState(b)))
            return True
        p = self._fresh_physical()
        r = self.n_local + i
        _write_pair(ex, p, r, BELL_VECS[b])
        self.pairs.append((p, r, b))
        ex._handle_epr_response(LinkLayerOKTypeK(
            type=ReturnType.OK_K, create_id=0, logical_qubit_id=p, directionality_flag=1,
            sequence_number=i, purpose_id=0, remote_node_id=1, goodness=0, goodness_time=0,
            bell_state=BellState(b)))
        return True


def _write_pair(ex, p, r, vec):
    """Both qubits must be |0> and unentangled; replace |00> by `vec` on (p, r)."""
    n = ex.n
    psi = ex.state.reshape([2] * n)
    idx0 = [slice(None)] * n
    idx0[p] = 0
    idx0[r] = 0
    rest = psi[tuple(idx0)]
    norm_rest = float(np.sum(np.abs(rest) ** 2))
    if abs(norm_rest - 1) > 1e-9:
        # the link layer re-initialises the communication qubit; that is only harmless when the
        # qubit is not entangled with anything (pure reduced state)
        rho = reduced(ex.state, n, [p])
        if abs(float(np.real(np.trace(rho @ rho))) - 1) > 1e-9:
            raise RuntimeError(f"physical qubit {p} is entangled when a new pair is delivered on it")
        ex._reset(p)
        psi = ex.state.reshape([2] * n)
        rest = psi[tuple(idx0)]
        if abs(float(np.sum(np.abs(rest) ** 2)) - 1) > 1e-9:
            raise RuntimeError(f"remote partner qubit {r} is not |0> when the pair is delivered")
    new = np.zeros_like(psi)
    for a, b in itertools.product((0, 1), repeat=2):
        idx = [slice(None)] * n
        idx[p] = a
        idx[r] = b
        new[tuple(idx)] = rest * vec[2 * a + b]
    ex.state = new.reshape(-1)


def reduced(state, n, keep):
    """Reduced density matrix on the qubits `keep` (in that order)."""
    psi = state.reshape([2] * n)
    rest = [q for q in range(n) if q not in keep]
    psi = np.transpose(psi, list(keep) + rest).reshape(2 ** len(keep), -1)
    return psi @ psi.conj().T


def fidelity(state, n, keep, vec):
    rho = reduced(state, n, keep)
    return float(np.real(vec.conj() @ rho @ vec))


def execute(sc):
    """Run the scenario on the real pipeline. Returns a dict with the observations."""
    P.reset_globals()
    n, live_n = sc["n"], sc["live"]
    # local physical qubits: live ones, the pairs' arrival qubits, and on NV the memory qubits the
    # states are moved to plus one relocation target
    n_local = _n_local(sc["hw"], live_n, n)
    ex = P.StateVectorExecutor(name="alice", n_phys=n_local + n)
    sock = EPRSocket("bob")
    conn = BellConn("alice", executor=ex, epr_sockets=[sock], **_hardware(sc["hw"]))
    conn.configure(sc, n_local)
    obs = {"status": "ok"}
    try:
        live = [Qubit(conn) for _ in range(live_n)]
        for k, q in enumerate(live):
            prepare_live(q, k)
        conn.flush()
        if sc.get("freed"):
            for k in sc["freed"]:
                live[k].measure()
            conn.flush()
            live = [q for k, q in enumerate(live) if k not in sc["freed"]]
        live_ids = [q.qubit_id for q in live]
        unit = ex._qubit_unit_modules[conn.app_id]
        live_phys0 = [unit[v] for v in live_ids]
        live_states = [reduced(ex.state, ex.n, [p]) for p in live_phys0]
        try:
            qubits, infos = _call_api(sock, sc, conn)
        except (AssertionError, ValueError) as e:
            obs["status"] = "build-raises"
            obs["error"] = f"{type(e).__name__}: {e}"
            return obs
        handle_ids = [q.qubit_id for q in qubits]
        live_ids_after = [q.qubit_id for q in live]
        try:
            conn.flush()
        except P.StepLimit:
            obs["status"] = "step-limit"
            obs["error"] = "executor step limit reached"
            return obs
        except Exception as e:  # noqa: BLE001 - executor faults are observations, not harness errors
            if "blocked on a wait" in str(e):
                obs["status"] = "blocked"
            else:
                obs["status"] = "runtime-fault"
            obs["error"] = f"{type(e).__name__}: {e}"[:300]
            obs["trace"] = [t for t in ex.trace if t[0] in ("rot", "g1", "g2")][-40:]
            return obs
        unit = ex._qubit_unit_modules[conn.app_id]
        obs["handle_ids"] = handle_ids
        obs["live_ids"] = live_ids_after
        obs["trace"] = [t for t in ex.trace if t[0] in ("rot", "g1", "g2")][-40:]
        if sc["api"] == "recv_measure":
            outs = []
            for r in infos:
                try:
                    outs.append(int(r.measurement_outcome))
                except Exception as e:  # noqa: BLE001
                    outs.append(f"{type(e).__name__}")
            obs["post"] = outs
            obs["raw_seen"] = [int(r.raw_measurement_outcome) for r in infos]
            return obs
        # where is pair i's local half now?
        locs = []
        for i, (p, r, b) in enumerate(conn.pairs):
            if sc["mode"] == "plain":
                phys = unit[handle_ids[i]]
            else:
                phys = p  # consumed (freed) by the post routine; the state vector keeps it
            locs.append(phys)
        obs["pair_phys"] = locs
        want = BELL_VECS[BellState.PHI_PLUS.value]
        obs["fid_phi_plus"] = [fidelity(ex.state, ex.n, [locs[i], r], want)
                               if locs[i] is not None else -1.0
                               for i, (p, r, b) in enumerate(conn.pairs)]
        obs["fid_delivered"] = [fidelity(ex.state, ex.n, [locs[i], r], BELL_VECS[b])
                                if locs[i] is not None else -1.0
                                for i, (p, r, b) in enumerate(conn.pairs)]
        live_phys = [unit[v] for v in live_ids_after]
        obs["live_fid"] = []
        for k, p in enumerate(live_phys):
            if p is None:
                obs["live_fid"].append(-1.0)
                continue
            rho = reduced(ex.state, ex.n, [p])
            obs["live_fid"].append(float(np.real(np.trace(rho @ live_states[k]))))
        if infos is not None:
            obs["info_bells"] = [int(r.raw_bell_state) for r in infos]
        return obs
    finally:
        _abandon(conn)


def judge(sc, obs, tol=1e-9):
    """Model-free property oracle on an observation. Returns a list of problems (empty = fine)."""
    bad = []
    if obs["status"] != "ok":
        return bad
    if sc["api"] == "recv_measure":
        return bad
    expect = sc.get("expect", True)
    for i, b in enumerate(sc["bells"]):
        f = obs["fid_phi_plus"][i] if expect else obs["fid_delivered"][i]
        if abs(f - 1) > tol:
            bad.append({"pair": i, "bell": b, "fidelity": round(f, 6),
                        "wanted": "phi+" if expect else "delivered state untouched"})
    for k, f in enumerate(obs["live_fid"]):
        if abs(f - 1) > tol:
            bad.append({"live_qubit": k, "fidelity": round(f, 6), "wanted": "unchanged"})
    if "info_bells" in obs and obs["info_bells"] != list(sc["bells"]):
        bad.append({"info_bells": obs["info_bells"], "wanted": list(sc["bells"])})
    return bad


# ------------------------------------------------------------------ measure-directly physics (numpy)


def _rx(t):
    return np.array([[np.cos(t / 2), -1j * np.sin(t / 2)], [-1j * np.sin(t / 2), np.cos(t / 2)]])


def _ry(t):
    return np.array([[np.cos(t / 2), -np.sin(t / 2)], [np.sin(t / 2), np.cos(t / 2)]], dtype=complex)


def joint_distribution(bell, rot_local, rot_remote):
    """P[l][r] when both halves of the Bell state are rotated (X by a, Y by b, X by c; units of pi/16)
    and measured in the computational basis."""
    def u(rot):
        a, b, c = (x * np.pi / 16 for x in rot)
        return _rx(c) @ _ry(b) @ _rx(a)
    psi = np.kron(u(rot_local), u(rot_remote)) @ BELL_VECS[bell]
    p = np.abs(psi) ** 2
    return [[float(p[0]), float(p[1])], [float(p[2]), float(p[3])]]


def basis_rotations():
    from netqasm.sdk.build_epr import EprMeasBasis, basis_to_rotation
    return {m.name: tuple(int(x) for x in basis_to_rotation(m)) for m in EprMeasBasis}


# ------------------------------------------------------------------ both ends of the pairs


class JointExecutor(P.StateVectorExecutor):
    """One node of a two-node run: both executors share one state vector; this node's physical
    qubit p is qubit `offset + p` of it."""

    def __init__(self, shared, offset, n_total, **kw):
        self._shared = shared
        self.offset = offset
        super().__init__(n_phys=n_total, **kw)

    @property
    def state(self):
        return self._shared["state"]

    @state.setter
    def state(self, v):
        self._shared["state"] = v

    def _get_position(self, subroutine_id=None, address=0, app_id=None):
        return super()._get_position(subroutine_id=subroutine_id, address=address, app_id=app_id) + self.offset


class EndConn(P.PipelineConnection):
    """One end of the link. The link (shared dict) decides once per pair which physical qubit of each
    node holds the pair and writes the delivered Bell state when the first end is served."""

    def configure(self, role, n, bells, n_local, link, peer_id):
        self.role, self.n_pairs, self.bells, self.n_local = role, n, bells, n_local
        self.link, self.peer_id, self.delivered = link, peer_id, 0

    def on_wait(self):
        ex = self.executor
        before = len(ex._pending_epr_responses)
        if before:
            ex._handle_pending_epr_responses()
            if len(ex._pending_epr_responses) < before:
                return True
        if self.delivered >= self.n_pairs:
            return False
        i = self.delivered
        self.delivered += 1
        b = self.bells[i]
        link = self.link
        if len(link["pairs"]) <= i:
            pc = link["n_local"]["create"] - 1 - i
            pr = link["n_local"]["recv"] - 1 - i
            gc, gr = link["offset"]["create"] + pc, link["offset"]["recv"] + pr
            _write_pair(ex, gc, gr, BELL_VECS[b])
            link["pairs"].append({"create": pc, "recv": pr, "bell": b})
        p = link["pairs"][i][self.role]
        if link.get("form10"):
            import qlink_interface as ql10
            ex._handle_epr_response(ql10.ResCreateAndKeep(
                create_id=0, directionality_flag=1 if self.role == "recv" else 0, sequence_number=i,
                purpose_id=0, remote_node_id=self.peer_id, goodness=0, bell_state=int(b),
                logical_qubit_id=p, time_of_goodness=0))
            return True
        ex._handle_epr_response(LinkLayerOKTypeK(
            type=ReturnType.OK_K, create_id=0, logical_qubit_id=p,
            directionality_flag=1 if self.role == "recv" else 0, sequence_number=i, purpose_id=0,
            remote_node_id=self.peer_id, goodness=0, goodness_time=0, bell_state=BellState(b)))
        return True


def _n_local(hw, live, n):
    return live + n + (n + 1 if hw_kind(hw)[0] != "generic" else 0)


def execute_both(sc):
    """Creator program and receiver program on two real executors over one joint state vector, the
    same Bell tuple delivered to both. sc: n, bells, expect (receiver), and per end
    hw_c/api_c/mode_c/live_c, hw_r/api_r/mode_r/live_r."""
    P.reset_globals()
    n = sc["n"]
    ends = {"create": dict(hw=sc["hw_c"], api=sc["api_c"], mode=sc["mode_c"], live=sc.get("live_c", 0), n=n,
                           name="alice", peer="bob", node=0, peer_node=1),
            "recv": dict(hw=sc["hw_r"], api=sc["api_r"], mode=sc["mode_r"], live=sc.get("live_r", 0), n=n,
                         expect=sc.get("expect", True), name="bob", peer="alice", node=1, peer_node=0)}
    nl = {r: _n_local(e["hw"], e["live"], n) for r, e in ends.items()}
    offset = {"create": 0, "recv": nl["create"]}
    n_total = nl["create"] + nl["recv"]
    shared = {}
    link = {"pairs": [], "n_local": nl, "offset": offset, "form10": sc.get("form10", False)}
    obs = {"status": "ok"}
    conns = []
    try:
        info = {}
        for role in ("create", "recv"):
            e = ends[role]
            ex = JointExecutor(shared, offset[role], n_total, name=e["name"], node_id=e["node"])
            e["ex"] = ex
        shared["state"] = np.zeros(2 ** n_total, dtype=complex)
        shared["state"][0] = 1
        for role in ("create", "recv"):
            e = ends[role]
            ex = e["ex"]
            sock = EPRSocket(e["peer"])
            conn = EndConn(e["name"], executor=ex, epr_sockets=[sock], node_ids={"alice": 0, "bob": 1},
                           **_hardware(e["hw"]))
            conns.append(conn)
            conn.configure(role, n, sc["bells"], nl[role], link, e["peer_node"])
            live = [Qubit(conn) for _ in range(e["live"])]
            for k, q in enumerate(live):
                prepare_live(q, k + (1 if role == "recv" else 0))
            conn.flush()
            unit = ex._qubit_unit_modules[conn.app_id]
            live_states = [reduced(ex.state, ex.n, [offset[role] + unit[q.qubit_id]]) for q in live]
            try:
                qubits, _ = _call_api(sock, e, conn)
            except (AssertionError, ValueError) as err:
                obs["status"] = "build-raises"
                obs["error"] = f"{role}: {type(err).__name__}: {err}"
                return obs
            try:
                conn.flush()
            except Exception as err:  # noqa: BLE001
                obs["status"] = "blocked" if "blocked on a wait" in str(err) else "runtime-fault"
                obs["error"] = f"{role}: {type(err).__name__}: {err}"[:300]
                return obs
            info[role] = dict(handle_ids=[q.qubit_id for q in qubits], live=live, live_states=live_states,
                              unit=ex._qubit_unit_modules[conn.app_id], app=conn.app_id)
            obs[role + "_rotations"] = [t[1:] for t in ex.trace if t[0] == "rot"][-12:]
        state = shared["state"]
        locs = {}
        for role in ("create", "recv"):
            e, inf = ends[role], info[role]
            locs[role] = []
            for i, pr in enumerate(link["pairs"]):
                if e["mode"] == "plain":
                    ph = inf["unit"][inf["handle_ids"][i]]
                else:
                    ph = pr[role]
                locs[role].append(None if ph is None else offset[role] + ph)
        expect = sc.get("expect", True)
        obs["fid"] = []
        for i, pr in enumerate(link["pairs"]):
            a, b = locs["create"][i], locs["recv"][i]
            want = BELL_VECS[BellState.PHI_PLUS.value] if expect else BELL_VECS[pr["bell"]]
            obs["fid"].append(-1.0 if a is None or b is None else fidelity(state, n_total, [a, b], want))
        obs["live_fid"] = []
        for role in ("create", "recv"):
            inf = info[role]
            for k, q in enumerate(inf["live"]):
                ph = inf["unit"][q.qubit_id]
                if ph is None:
                    obs["live_fid"].append(-1.0)
                    continue
                rho = reduced(state, n_total, [offset[role] + ph])
                obs["live_fid"].append(float(np.real(np.trace(rho @ inf["live_states"][k]))))
        obs["handle_ids"] = {r: info[r]["handle_ids"] for r in info}
        return obs
    finally:
        for c in conns:
            _abandon(c)


def judge_both(sc, obs, tol=1e-9):
    bad = []
    if obs["status"] != "ok":
        return bad
    for i, f in enumerate(obs["fid"]):
        if abs(f - 1) > tol:
            bad.append({"pair": i, "bell": sc["bells"][i], "joint_fidelity": round(f, 6),
                        "wanted": "phi+" if sc.get("expect", True) else "delivered state untouched",
                        "creator_rotations": obs.get("create_rotations"),
                        "receiver_rotations": obs.get("recv_rotations")})
    for k, f in enumerate(obs["live_fid"]):
        if abs(f - 1) > tol:
            bad.append({"live_qubit": k, "fidelity": round(f, 6), "wanted": "unchanged"})
    return bad


# ------------------------------------------------------------------ measure-directly / RSP, both ends,
# with a link layer that MEASURES the delivered pair in the bases it was ASKED for


def _u_of(rot):
    a, b, c = (x * np.pi / 16 for x in rot)
    return _rx(c) @ _ry(b) @ _rx(a)


class MdConn(P.PipelineConnection):
    """One end of a measure-directly or remote-state-preparation request. The first time the creator
    waits, the link reads the request the network stack received, measures every delivered Bell pair in
    the rotations written there, and remembers the raw outcomes; both ends are then served from that."""

    def configure(self, role, sc, link, peer_id):
        self.role, self.sc, self.link, self.peer_id, self.delivered = role, sc, link, peer_id, 0

    def _link_measure(self):
        ex, sc, link = self.executor, self.sc, self.link
        reqs = ex.network_stack.requests
        if not reqs:
            raise RuntimeError("the network stack received no create request")
        req = reqs[-1]
        asked_l = (req.rotation_X_local1, req.rotation_Y_local, req.rotation_X_local2)
        asked_r = (req.rotation_X_remote1, req.rotation_Y_remote, req.rotation_X_remote2)
        if sc.get("via10"):
            # the link layer speaks qlink-interface 1.0: it measures in the angles of the request object the
            # real `request_to_qlink_1_0` produces
            from netqasm.qlink_compat import request_to_qlink_1_0
            q10 = request_to_qlink_1_0(req)
            asked_l = (q10.x_rotation_angle_local_1, q10.y_rotation_angle_local, q10.x_rotation_angle_local_2)
            asked_r = (q10.x_rotation_angle_remote_1, q10.y_rotation_angle_remote, q10.x_rotation_angle_remote_2)
            link["request_10"] = type(q10).__name__
        link["asked"] = (tuple(int(x) for x in asked_l), tuple(int(x) for x in asked_r))
        link["request_type"] = req.type.name
        link["number"] = int(req.number)
        for i, b in enumerate(sc["bells"]):
            ch = sc["choice"][i]
            if sc["kind"] == "M":
                p = joint_distribution(b, asked_l, asked_r)
                support = sorted((c, r) for c in (0, 1) for r in (0, 1) if p[c][r] > 1e-9)
                c, r = support[ch % len(support)]
                link["outcomes"].append((c, r))
                link.setdefault("probs", []).append(p[c][r])
                link.setdefault("support", []).append(len(support))
            else:
                # remote state preparation: the creator's half (a link-internal qubit) is rotated as asked
                # and measured; the receiver's physical qubit keeps the collapsed state
                g_c = link["n_total"] - 1 - i
                g_r = link["offset_recv"] + (link["n_local_recv"] - 1 - i)
                _write_pair(ex, g_c, g_r, BELL_VECS[b])
                ex._apply1(_u_of(asked_l), g_c)
                c = ch % 2
                psi = ex.state.reshape([2] * ex.n)
                part = np.take(psi, c, axis=g_c)
                prob = float(np.sum(np.abs(part) ** 2))
                if prob < 1e-9:
                    c = 1 - c
                    part = np.take(psi, c, axis=g_c)
                    prob = float(np.sum(np.abs(part) ** 2))
                new = np.zeros_like(psi)
                idx = [slice(None)] * ex.n
                idx[g_c] = 0  # the measured link qubit is left in |0>
                new[tuple(idx)] = part / np.sqrt(prob)
                ex.state = new.reshape(-1)
                link["outcomes"].append((c, None))
                link["recv_phys"].append(link["n_local_recv"] - 1 - i)

    def on_wait(self):
        ex, sc, link = self.executor, self.sc, self.link
        before = len(ex._pending_epr_responses)
        if before:
            ex._handle_pending_epr_responses()
            if len(ex._pending_epr_responses) < before:
                return True
        if self.delivered >= sc["n"]:
            return False
        if self.role == "create" and not link["outcomes"]:
            self._link_measure()
        i = self.delivered
        self.delivered += 1
        b = sc["bells"][i]
        c, r = link["outcomes"][i]
        if self.role == "create" or sc["kind"] == "M":
            ex._handle_epr_response(LinkLayerOKTypeM(
                type=ReturnType.OK_M, create_id=0, measurement_outcome=c if self.role == "create" else r,
                measurement_basis=0, directionality_flag=0 if self.role == "create" else 1, sequence_number=i,
                purpose_id=0, remote_node_id=self.peer_id, goodness=0, bell_state=BellState(b)))
        else:
            ex._handle_epr_response(LinkLayerOKTypeK(
                type=ReturnType.OK_K, create_id=0, logical_qubit_id=link["recv_phys"][i], directionality_flag=1,
                sequence_number=i, purpose_id=0, remote_node_id=self.peer_id, goodness=0, goodness_time=0,
                bell_state=BellState(b)))
        return True


def execute_md_both(sc):
    """Creator (`create_measure` / `create_rsp`, also through the deprecated `create(tp=…)`) and receiver
    (`recv_measure` / `recv_rsp`) on two real executors. sc: kind 'M'|'R', n, bells, choice (which
    possible raw outcome the link reports per pair), basis_l / basis_r (EprMeasBasis names the APPLICATION
    asks for; basis_r only for M), via_c 'api'|'create' (deprecated entry point), via_r 'public'|'builder',
    expect (receiver)."""
    from netqasm.qlink_compat import EPRType
    from netqasm.sdk.build_epr import EntRequestParams, EprMeasBasis
    P.reset_globals()
    n = sc["n"]
    rots = basis_rotations()
    # how the APPLICATION states each basis: by name, by rotation tuple, by both (the name wins; the
    # tuple is a decoy), or not at all (then it asks for the default rotations (0,0,0) = Z)
    form_l, form_r = sc.get("form_l", "name"), sc.get("form_r", "name")
    name_l = "Z" if form_l == "none" else sc["basis_l"]
    name_r = "Z" if form_r == "none" else sc.get("basis_r", "Z")
    rot_l = rots[name_l]
    rot_r = rots[name_r]

    def spec(form, name, side):
        decoy = rots["MY"] if name != "MY" else rots["X"]
        kw = {}
        if form in ("name", "both"):
            kw["basis_" + side] = EprMeasBasis[name]
        if form == "rot":
            kw["rotations_" + side] = rots[name]
        if form == "both":
            kw["rotations_" + side] = decoy
        return kw
    n_local_recv = n + 1
    n_total = n_local_recv + n  # receiver's qubits, then the link-internal creator halves
    shared = {}
    link = {"outcomes": [], "recv_phys": [], "n_total": n_total, "offset_recv": 0, "n_local_recv": n_local_recv}
    obs = {"status": "ok"}
    conns = []
    try:
        ex_c = JointExecutor(shared, n_local_recv, n_total, name="alice", node_id=0)
        ex_r = JointExecutor(shared, 0, n_total, name="bob", node_id=1)
        shared["state"] = np.zeros(2 ** n_total, dtype=complex)
        shared["state"][0] = 1
        # ---- creator
        sock_c = EPRSocket("bob")
        conn_c = MdConn("alice", executor=ex_c, epr_sockets=[sock_c], node_ids={"alice": 0, "bob": 1},
                        **_hardware("generic"))
        conns.append(conn_c)
        conn_c.configure("create", sc, link, 1)
        kw = spec(form_l, name_l, "local")
        if sc["kind"] == "M":
            kw.update(spec(form_r, name_r, "remote"))
            if sc.get("via_c") == "create":
                res_c = sock_c.create(number=n, tp=EPRType.M, **kw)
            else:
                res_c = sock_c.create_measure(number=n, **kw)
        else:
            if sc.get("via_c") == "create":
                if "rotations_local" in kw and "basis_local" not in kw:
                    raise ValueError("create(tp=R) takes the basis by name only")
                kw.pop("rotations_local", None)
                res_c = sock_c.create(number=n, tp=EPRType.R, **kw)
            else:
                res_c = sock_c.create_rsp(number=n, **kw)
        obs["creator_call"] = {k: (v.name if hasattr(v, "name") else list(v)) for k, v in kw.items()}
        try:
            conn_c.flush()
        except Exception as e:  # noqa: BLE001
            obs["status"] = "blocked" if "blocked on a wait" in str(e) else "runtime-fault"
            obs["error"] = f"create: {type(e).__name__}: {e}"[:300]
            return obs
        obs["asked"] = link.get("asked")
        obs["application"] = (rot_l, rot_r)
        obs["request_type"] = link.get("request_type")
        obs["creator_post_process"] = [bool(r.post_process) for r in res_c]
        obs["creator_raw"] = [c for c, _ in link["outcomes"]]
        obs["link_probs"] = link.get("probs")
        obs["link_support"] = link.get("support")
        outs = []
        for r in res_c:
            try:
                outs.append(int(r.measurement_outcome))
            except Exception as e:  # noqa: BLE001
                outs.append(type(e).__name__)
        obs["creator_out"] = outs
        # ---- receiver
        sock_r = EPRSocket("alice")
        conn_r = MdConn("bob", executor=ex_r, epr_sockets=[sock_r], node_ids={"alice": 0, "bob": 1},
                        **_hardware("generic"))
        conns.append(conn_r)
        conn_r.configure("recv", sc, link, 0)
        expect = sc.get("expect", True)
        if sc["kind"] == "M":
            if sc.get("via_r") == "builder":
                res_r = conn_r.builder.sdk_recv_epr_measure(params=EntRequestParams(
                    remote_node_id=sock_r.remote_node_id, epr_socket_id=sock_r._epr_socket_id, number=n,
                    post_routine=None, sequential=False, expect_phi_plus=expect,
                    rotations_local=rot_r, rotations_remote=rot_l))
            else:
                res_r = sock_r.recv_measure(number=n, expect_phi_plus=expect)
            qubits = []
        else:
            qubits = sock_r.recv_rsp(number=n, expect_phi_plus=expect)
            res_r = []
        try:
            conn_r.flush()
        except Exception as e:  # noqa: BLE001
            obs["status"] = "blocked" if "blocked on a wait" in str(e) else "runtime-fault"
            obs["error"] = f"recv: {type(e).__name__}: {e}"[:300]
            return obs
        if sc["kind"] == "M":
            obs["receiver_raw"] = [r for _, r in link["outcomes"]]
            outs = []
            for r in res_r:
                try:
                    outs.append(int(r.measurement_outcome))
                except Exception as e:  # noqa: BLE001
                    outs.append(type(e).__name__)
            obs["receiver_out"] = outs
        else:
            unit = ex_r._qubit_unit_modules[conn_r.app_id]
            obs["handle_ids"] = [q.qubit_id for q in qubits]
            obs["recv_fid"] = []
            for i, q in enumerate(qubits):
                ph = unit[q.qubit_id]
                c_rep = obs["creator_out"][i]
                if ph is None or not isinstance(c_rep, int):
                    obs["recv_fid"].append(-1.0)
                    continue
                # the state Phi+ leaves on the partner when the creator's half, rotated as the
                # APPLICATION asked, shows the outcome the creator REPORTS
                want_pair = BELL_VECS[BellState.PHI_PLUS.value if expect else sc["bells"][i]].reshape(2, 2)
                v = (_u_of(rot_l)[c_rep, :] @ want_pair)
                v = v / np.linalg.norm(v)
                rho = reduced(shared["state"], n_total, [ph])
                obs["recv_fid"].append(float(np.real(v.conj() @ rho @ v)))
        return obs
    finally:
        for c in conns:
            _abandon(c)


def judge_md_both(sc, obs, tol=1e-9):
    bad = []
    if obs["status"] != "ok":
        return bad
    expect = sc.get("expect", True)
    if any(obs["creator_post_process"]):
        bad.append({"creator_post_process": obs["creator_post_process"], "wanted": "never on the creating side"})
    for i, (raw, out) in enumerate(zip(obs["creator_raw"], obs["creator_out"])):
        if out != raw:
            bad.append({"pair": i, "bell": sc["bells"][i], "creator_raw": raw, "creator_reported": out,
                        "wanted": "the creator reports its raw outcome"})
    asked = obs.get("asked")
    if asked is not None:
        app_l, app_r = obs["application"]
        want = (tuple(app_l), tuple(app_r) if sc["kind"] == "M" else tuple(asked[1]))
        if (tuple(asked[0]), tuple(asked[1])) != want:
            bad.append({"asked_of_link": [list(asked[0]), list(asked[1])],
                        "application": [list(app_l), list(app_r)],
                        "through": "request_to_qlink_1_0" if sc.get("via10") else "LinkLayerCreate",
                        "wanted": "the link layer is asked to measure in the bases the application requested"})
    if sc["kind"] == "M":
        rot_l, rot_r = obs["application"]
        for i, b in enumerate(sc["bells"]):
            c, r = obs["creator_out"][i], obs["receiver_out"][i]
            if not (isinstance(c, int) and isinstance(r, int)):
                bad.append({"pair": i, "creator": c, "receiver": r})
                continue
            ref = BellState.PHI_PLUS.value if expect else b
            p = joint_distribution(ref, rot_l, rot_r)
            if p[c][r] <= 1e-9:
                bad.append({"pair": i, "bell": b, "bases": [sc["basis_l"], sc.get("basis_r", "Z")],
                            "asked_of_link": obs["asked"], "creator": c, "receiver": r,
                            "receiver_raw": obs["receiver_raw"][i],
                            "wanted": "an outcome pair Phi+ can give in the requested bases"
                            if expect else "an outcome pair the delivered state can give"})
    else:
        for i, f in enumerate(obs["recv_fid"]):
            if abs(f - 1) > tol:
                bad.append({"pair": i, "bell": sc["bells"][i], "basis": sc["basis_l"],
                            "creator_raw": obs["creator_raw"][i], "creator_reported": obs["creator_out"][i],
                            "receiver_state_fidelity": round(f, 6),
                            "wanted": "the state Phi+ leaves for the outcome the creator reports"})
    return bad


def probe_rotations(entry, bl, br, rl, rr):
    """Call the real `create_measure` / `create_rsp` / `create(tp=M)` / `create(tp=R)` (not executed) with
    the bases given by name (or None) and rotation tuples; return the rotations the result objects carry
    (= EntRequestParams.rotations_local/remote) and slots 14..19 of the serialized request array."""
    import netqasm.sdk.build_epr as be
    from netqasm.qlink_compat import EPRType
    P.reset_globals()
    sock = EPRSocket("bob")
    conn = P.PipelineConnection("alice", executor=P.TraceExecutor(name="alice"), epr_sockets=[sock])
    try:
        B = be.EprMeasBasis
        kw = dict(number=1)
        if bl is not None:
            kw["basis_local"] = B[bl]
        if entry in ("create_measure", "create(tp=M)") and br is not None:
            kw["basis_remote"] = B[br]
        if entry != "create(tp=R)":
            kw["rotations_local"] = tuple(rl)
        if entry in ("create_measure", "create(tp=M)"):
            kw["rotations_remote"] = tuple(rr)
        if entry == "create_measure":
            res = sock.create_measure(**kw)
        elif entry == "create_rsp":
            res = sock.create_rsp(**kw)
        elif entry == "create(tp=M)":
            res = sock.create(tp=EPRType.M, **kw)
        else:
            res = sock.create(tp=EPRType.R, **kw)
        out_l = tuple(int(x) for x in res[0].measurement_basis_local)
        out_r = tuple(int(x) for x in res[0].measurement_basis_remote)
        arrs = [a for a in conn.builder._mem_mgr.get_arrays_to_return() if len(a) == be.SER_CREATE_LEN
                and a._init_values is not None]
        if len(arrs) != 1:
            raise ValueError(f"{entry}: cannot find the serialized request array")
        iv = arrs[0]._init_values
        idx = [be.SER_CREATE_IDX_ROTATION_X_LOCAL1, be.SER_CREATE_IDX_ROTATION_Y_LOCAL,
               be.SER_CREATE_IDX_ROTATION_X_LOCAL2, be.SER_CREATE_IDX_ROTATION_X_REMOTE1,
               be.SER_CREATE_IDX_ROTATION_Y_REMOTE, be.SER_CREATE_IDX_ROTATION_X_REMOTE2]
        ser = [0 if iv[k] is None else int(iv[k]) for k in idx]
        return out_l, out_r, ser
    finally:
        _abandon(conn)


# ------------------------------------------------------------------ histories of requests on ONE socket object

KEEP_ENTRIES = ("create_keep", "create_keep_with_info", "recv_keep", "recv_keep_with_info")
K_ENTRIES = KEEP_ENTRIES + ("recv_rsp", "recv_rsp_with_info")      # this node holds a qubit
M_ENTRIES = ("create_measure", "create_rsp", "recv_measure")         # this node gets an outcome
SDK_METHODS = ("sdk_create_epr_keep", "sdk_recv_epr_keep", "sdk_create_epr_measure", "sdk_recv_epr_measure",
               "sdk_create_epr_rsp", "sdk_recv_epr_rsp")


def call_request(sock, r):
    """One request method of the socket, called as the application would. Returns (qubits, results)."""
    from netqasm.sdk.build_epr import EprMeasBasis
    e = r["entry"]
    kw = dict(number=r["number"])
    if e in KEEP_ENTRIES and r.get("post"):
        kw["post_routine"] = _post_routine({})
        kw["sequential"] = bool(r.get("sequential"))
    if e.startswith("recv"):
        kw["expect_phi_plus"] = r.get("expect", True)
    if e in ("create_measure", "create_rsp"):
        if r.get("bl") is not None:
            kw["basis_local"] = EprMeasBasis[r["bl"]]
        if tuple(r.get("rl", (0, 0, 0))) != (0, 0, 0) or r.get("pass_rots"):
            kw["rotations_local"] = tuple(r.get("rl", (0, 0, 0)))
    if e == "create_measure":
        if r.get("br") is not None:
            kw["basis_remote"] = EprMeasBasis[r["br"]]
        if tuple(r.get("rr", (0, 0, 0))) != (0, 0, 0) or r.get("pass_rots"):
            kw["rotations_remote"] = tuple(r.get("rr", (0, 0, 0)))
    out = getattr(sock, e)(**kw)
    if e.endswith("_with_info"):
        return list(out[0]), list(out[1])
    if e in M_ENTRIES:
        return [], list(out)
    return list(out), []


def _spy_builder(builder, captured):
    """Record, at call time, the fields of the EntRequestParams handed to the builder."""
    for name in SDK_METHODS:
        orig = getattr(builder, name)

        def wrapper(*a, __orig=orig, **k):
            p = k.get("params", a[0] if a else None)
            captured.append({"number": int(p.number), "expect": bool(p.expect_phi_plus),
                             "post": p.post_routine is not None, "sequential": bool(p.sequential),
                             "rots": [int(x) for x in p.rotations_local] + [int(x) for x in p.rotations_remote]})
            return __orig(*a, **k)
        setattr(builder, name, wrapper)


def history_params(reqs, pop_between=False):
    """The requests of `reqs` made one after the other on ONE EPRSocket object (not executed): for each,
    the parameters the builder was handed and the post_process flag of its measure result objects."""
    P.reset_globals()
    sock = EPRSocket("bob")
    conn = P.PipelineConnection("alice", executor=P.TraceExecutor(name="alice"), epr_sockets=[sock],
                                **_hardware("g12"))
    captured, out = [], []
    _spy_builder(conn.builder, captured)
    try:
        for r in reqs:
            k = len(captured)
            try:
                qubits, results = call_request(sock, r)
            except (AssertionError, ValueError, RuntimeError) as e:
                out.append({"raises": type(e).__name__})
                continue
            if len(captured) != k + 1:
                out.append({"raises": "no-builder-call"})
                continue
            obs = dict(captured[-1])
            flags = {bool(x.post_process) for x in results if hasattr(x, "post_process")}
            obs["post_process"] = (flags == {True})
            if len(flags) > 1:
                obs["post_process"] = "mixed"
            out.append(obs)
            if pop_between:
                conn.builder.subrt_pop_pending_subroutine()
        return out
    finally:
        _abandon(conn)


class HistConn(P.PipelineConnection):
    """Serves the CURRENT request of a history: a K-type response per pair (Bell state written between a
    fresh local physical qubit and a fresh partner qubit) or an M-type response with the scripted raw
    outcome; creator or receiver as the request says."""

    def start(self, n_local):
        self.n_local = n_local
        self.top = n_local        # local physical qubits are taken from the top downwards, never reused
        self.partner = n_local    # partner qubits from n_local upwards
        self.cur = None

    def begin(self, r):
        self.cur, self.delivered, self.pairs = r, 0, []

    def on_wait(self):
        ex, r = self.executor, self.cur
        before = len(ex._pending_epr_responses)
        if before:
            ex._handle_pending_epr_responses()
            if len(ex._pending_epr_responses) < before:
                return True
        if r is None or self.delivered >= r["number"]:
            return False
        i = self.delivered
        self.delivered += 1
        b = r["bells"][i]
        flag = 1 if r["entry"].startswith("recv") else 0
        if r["entry"] in M_ENTRIES:
            ex._handle_epr_response(LinkLayerOKTypeM(
                type=ReturnType.OK_M, create_id=0, measurement_outcome=r["raw"][i], measurement_basis=0,
                directionality_flag=flag, sequence_number=i, purpose_id=0, remote_node_id=1, goodness=0,
                bell_state=BellState(b)))
            return True
        self.top -= 1
        p, q = self.top, self.partner
        self.partner += 1
        taken = set(ex._used_physical_qubit_addresses)
        if p in taken or p < 0:
            raise RuntimeError("no fresh physical qubit")
        _write_pair(ex, p, q, BELL_VECS[b])
        self.pairs.append((p, q, b))
        ex._handle_epr_response(LinkLayerOKTypeK(
            type=ReturnType.OK_K, create_id=0, logical_qubit_id=p, directionality_flag=flag, sequence_number=i,
            purpose_id=0, remote_node_id=1, goodness=0, goodness_time=0, bell_state=BellState(b)))
        return True


def execute_history(reqs):
    """Execute the requests one after the other (a flush after each) on ONE connection and ONE EPRSocket
    object; every request carries what the link delivers for it (`bells`, and `raw` for outcome forms).
    Returns one observation per request."""
    P.reset_globals()
    total = sum(r["number"] for r in reqs if r["entry"] in K_ENTRIES)
    n_local = total + 2
    ex = P.StateVectorExecutor(name="alice", n_phys=n_local + total)
    sock = EPRSocket("bob")
    conn = HistConn("alice", executor=ex, epr_sockets=[sock], **_hardware("g12"))
    conn.start(n_local)
    rots = basis_rotations()
    out = []
    try:
        for r in reqs:
            conn.begin(r)
            obs = {"status": "ok", "entry": r["entry"]}
            out.append(obs)
            n_req = len(ex.network_stack.requests)
            try:
                qubits, results = call_request(sock, r)
            except (AssertionError, ValueError, RuntimeError) as e:
                obs["status"] = "build-raises"
                obs["error"] = f"{type(e).__name__}: {e}"[:200]
                break
            handle_ids = [q.qubit_id for q in qubits]
            try:
                conn.flush()
            except Exception as e:  # noqa: BLE001
                obs["status"] = "blocked" if "blocked on a wait" in str(e) else "runtime-fault"
                obs["error"] = f"{type(e).__name__}: {e}"[:300]
                break
            if r["entry"] in M_ENTRIES:
                outs = []
                for x in results:
                    try:
                        outs.append(int(x.measurement_outcome))
                    except Exception as e:  # noqa: BLE001
                        outs.append(type(e).__name__)
                obs["out"] = outs
                obs["post_process"] = [bool(x.post_process) for x in results]
                if r["entry"].startswith("create"):
                    new = ex.network_stack.requests[n_req:]
                    if len(new) == 1:
                        q = new[0]
                        obs["asked"] = [int(q.rotation_X_local1), int(q.rotation_Y_local), int(q.rotation_X_local2),
                                        int(q.rotation_X_remote1), int(q.rotation_Y_remote), int(q.rotation_X_remote2)]
                    want_l = rots[r["bl"]] if r.get("bl") else tuple(r.get("rl", (0, 0, 0)))
                    want_r = (0, 0, 0)
                    if r["entry"] == "create_measure":
                        want_r = rots[r["br"]] if r.get("br") else tuple(r.get("rr", (0, 0, 0)))
                    obs["application"] = list(want_l) + list(want_r)
                continue
            unit = ex._qubit_unit_modules[conn.app_id]
            obs["handle_ids"] = handle_ids
            plain = not r.get("post")
            locs = [unit[handle_ids[i]] if plain else p for i, (p, q, b) in enumerate(conn.pairs)]
            phi = BELL_VECS[BellState.PHI_PLUS.value]
            obs["fid_phi_plus"] = [fidelity(ex.state, ex.n, [locs[i], q], phi) if locs[i] is not None else -1.0
                                   for i, (p, q, b) in enumerate(conn.pairs)]
            obs["fid_delivered"] = [fidelity(ex.state, ex.n, [locs[i], q], BELL_VECS[b])
                                    if locs[i] is not None else -1.0 for i, (p, q, b) in enumerate(conn.pairs)]
            if plain:
                for q in qubits:   # make room for the next request
                    q.free()
        return out
    finally:
        _abandon(conn)


def judge_history(reqs, obs, tol=1e-9):
    """Every request judged exactly as a first request on a fresh socket. Returns problems tagged with
    the index of the request."""
    bad = []
    for k, (r, o) in enumerate(zip(reqs, obs)):
        if o["status"] != "ok":
            bad.append({"request": k, "entry": r["entry"], "status": o["status"], "error": o.get("error")})
            break
        e = r["entry"]
        if e in M_ENTRIES:
            for i, (b, l) in enumerate(zip(r["bells"], r["raw"])):
                out = o["out"][i]
                if e.startswith("create"):
                    if out != l or o["post_process"][i]:
                        bad.append({"request": k, "entry": e, "pair": i, "bell": b, "raw": l, "reported": out,
                                    "post_process": o["post_process"][i],
                                    "wanted": "the creating side reports its raw outcome"})
                    continue
                if not r.get("expect", True):
                    if out != l:
                        bad.append({"request": k, "entry": e, "pair": i, "bell": b, "raw": l, "reported": out,
                                    "wanted": "raw outcome (expectation off)"})
                    continue
                # the public receiver knows no bases: the partner measured Z, and so did the link on this side
                z = (0, 0, 0)
                p = joint_distribution(b, z, z)
                want = joint_distribution(BellState.PHI_PLUS.value, z, z)
                for rr in (0, 1):
                    if p[l][rr] > 1e-9 and not (isinstance(out, int) and want[out][rr] > 1e-9):
                        bad.append({"request": k, "entry": e, "pair": i, "bell": b, "raw": l, "remote": rr,
                                    "reported": out, "wanted": "an outcome pair Phi+ can give (Z/Z)"})
            if e.startswith("create") and o.get("asked") != o.get("application"):
                bad.append({"request": k, "entry": e, "asked_of_link": o.get("asked"),
                            "application": o.get("application"),
                            "wanted": "the link is asked for the bases of THIS request"})
            continue
        corrects = e.startswith("recv") and r.get("expect", True)
        for i, b in enumerate(r["bells"]):
            f = o["fid_phi_plus"][i] if corrects else o["fid_delivered"][i]
            if abs(f - 1) > tol:
                bad.append({"request": k, "entry": e, "pair": i, "bell": b, "fidelity": round(f, 6),
                            "handle_id": o["handle_ids"][i] if o.get("handle_ids") else None,
                            "wanted": "phi+" if corrects else "delivered state untouched"})
    return bad
