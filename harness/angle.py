"""Real-code side of the `angle` correspondence stream (C19): generators of doubles, exact
(mantissa, exponent) conversion, the model-free oracle, and the builder path."""
import math
from fractions import Fraction

from vlib import common

common.use_repo()
import numpy as np  # noqa: E402

from netqasm.logging.glob import set_log_level  # noqa: E402

set_log_level("ERROR")
from netqasm.sdk.toolbox import state_prep  # noqa: E402

# pi to 60 decimal places (model-free oracle; no mpmath/decimal needed)
PI = Fraction(3141592653589793238462643383279502884197169399375105820974944, 10 ** 60)
TWO_PI = 2 * PI

TOLS = [1e-1, 1e-2, 1e-3, 1e-4, 1e-5, 1e-6, 1e-7, 1e-8, 1e-9]


def real_spec(angle, tol):
    """('ok', list) | ('raise', class name)"""
    try:
        with np.errstate(all="ignore"):
            out = state_prep.get_angle_spec_from_float(angle, tol)
        return "ok", [tuple(p) for p in out]
    except Exception as e:  # noqa
        return "raise", type(e).__name__


def exact_inputs(angle, tol):
    """The doubles the code holds when it enters the loop, as exact naturals over one scale 2^E.
    These three floating-point operations are the part of the function OUTSIDE the Lean model."""
    a = angle % (2 * np.pi)
    rest = a / np.pi
    tol_pi = tol / np.pi
    rn, rd = float(rest).as_integer_ratio()
    tn, td = float(tol_pi).as_integer_ratio()
    if rn < 0 or tn < 0:
        raise ValueError("negative remainder/tolerance")
    e = max(rd.bit_length() - 1, td.bit_length() - 1)
    return e, rn * ((1 << e) // rd), tn * ((1 << e) // td)


U = Fraction(1, 1 << 53)   # unit round-off of binary64


def float_model(angle, tol):
    """Exact-rational check of the hypotheses of `C19.result_within_float` for this input: returns
    (kk, list of violated hypotheses). kk = number of periods removed by the float `%`."""
    P = Fraction(math.pi)
    a_f = angle % (2 * math.pi)
    a1 = Fraction(a_f)
    A = Fraction(angle)
    kk = Fraction(round((A - a1) / (2 * P)))      # the integer number of periods removed
    bad = []
    if abs(A - kk * 2 * P - a1) > U * 2 * P:        # exact for A >= 0; one rounded addition for A < 0
        bad.append("float %%: |a' - (A - k 2P)| = %.3e above u*2P" % float(abs(A - kk * 2 * P - a1)))
    if not (PI * (1 - U) <= P <= PI * (1 + U)):
        bad.append("np.pi is not pi within relative 2^-53")
    if not (0 <= a1 <= 2 * P):
        bad.append("angle %% 2pi outside [0, 2 fl(pi)]")
    rest = Fraction(a_f / math.pi)
    eta = Fraction(1, 1 << 1075) * P                  # gradual underflow: absolute error of a denormal quotient
    if abs(rest * P - a1) > U * a1 + eta:
        bad.append("division angle/pi: error above 2^-53 relative + 2^-1075 absolute")
    tol_pi = Fraction(tol / math.pi)
    if tol_pi * P > Fraction(tol) * (1 + U):
        bad.append("division tol/pi: relative error above 2^-53")
    return kk, bad


def slack(angle, tol=0.0):
    """the explicit error term of `C19.result_within_float` beyond tol (radians):
    4 tol u + 8 pi u (1+u) + 2 |kk| u pi"""
    kk, _ = float_model(angle, tol if tol else 1e-4)
    return 4 * Fraction(tol) * U + 8 * PI * U * (1 + U) + 2 * abs(kk) * U * PI


def oracle(angle, tol, nds):
    """Model-free check of the property statement. Returns None or a description of the failure."""
    for p in nds:
        if not (isinstance(p, tuple) and len(p) == 2):
            return "not a pair: %r" % (p,)
        n, d = p
        if not (isinstance(n, int) and isinstance(d, int)) or isinstance(n, bool):
            return "non-integer step %r" % (p,)
        if not (0 <= n <= 255 and 0 <= d <= 255):
            return "step %r does not fit the 8-bit fields" % (p,)
    s = sum((Fraction(n, 1 << d) for n, d in nds), Fraction(0))
    x = s * PI - Fraction(angle)
    k = round(x / TWO_PI)
    err = abs(x - k * TWO_PI)
    bound = Fraction(tol) + slack(angle, tol)
    if err > bound:
        return "error %.3e rad > tol %.3e (+%.1e rounding slack)" % (float(err), tol, float(slack(angle, tol)))
    return None


# ---------------------------------------------------------------- generators


def nxt(x, k):
    for _ in range(abs(k)):
        x = math.nextafter(x, math.inf if k > 0 else -math.inf)
    return x


def structured_angles():
    pi = math.pi
    out = [0.0, -0.0, 0.3, 2e-4, -1e-20, 1e-20, pi, -pi, 2 * pi, -2 * pi, 4 * pi, pi / 2, pi / 4, 3 * pi / 2,
           7 * pi / 4, 1.0, -1.0, 100.0, -100.0, 1e6, -1e6, 12345.678, 2 * pi + 1e-9, 2 * pi - 1e-9]
    # dyadic multiples of pi
    for j in range(0, 12):
        for k in (1, 3, 5, 127, 255, 2 ** j + 1):
            out.append(k * pi / 2 ** j)
            out.append(-k * pi / 2 ** j)
    # within tol of 0 and of 2 pi
    for tol in TOLS:
        for f in (0.5, 0.99, 1.0, 1.01, 2.0, 3.2):
            out += [tol * f, -tol * f, 2 * pi - tol * f, 2 * pi + tol * f, tol * f / pi, 2 * pi - tol * f * pi]
    # float neighbours of 0, 2 pi, pi
    for base in (0.0, 2 * pi, pi, 4 * pi, -2 * pi):
        for k in range(-3, 4):
            out.append(nxt(base, k))
    # denormals and huge values
    out += [5e-324, -5e-324, 1e-310, -1e-310, 2.2250738585072014e-308, 1e300, -1e300, 1.7976931348623157e308,
            -1.7976931348623157e308, 1e200, 2.0 ** 60, 2.0 ** 53 + 2, 1e16, 1e15 + 0.5]
    # remainders next to 255/2^k and 127.5/2^k: the rounding of log2 may pick a neighbouring exponent
    for k in range(7, 40):
        for num in (255.0, 127.5, 128.0, 256.0):
            rest = num / 2 ** k
            for step in range(-2, 3):
                out.append(nxt(rest, step) * pi)
                out.append(nxt(nxt(rest, step) * pi, 1))
    return out


def default_tol():
    """the tolerance the builder path uses: the default of get_angle_spec_from_float"""
    import inspect
    return inspect.signature(state_prep.get_angle_spec_from_float).parameters["tol"].default


def near_tol_angles(tol):
    """angles whose residual before the LAST step is just above the tolerance: anchor + tol*(1+eps) with eps up
    to ~1/127 (the last step (n, d), n >= 127, is then itself smaller than tol although the residual is not),
    plus residuals just below / far above for contrast"""
    pi = math.pi
    anchors = [0.0, pi / 4, pi / 2, -pi / 2, pi, 3 * pi / 2, 5 * pi, -3 * pi / 4, 7 * pi / 8, 2 * pi, 1.0, 0.3,
               100.0, 13 * pi / 64, -pi / 256]
    eps = [2e-5, 1e-4, 3e-4, 1e-3, 2e-3, 3e-3, 3.6e-3, 5e-3, 7e-3, 7.8e-3, 8e-3, 1e-2, -1e-3, -1e-5, 0.05, 0.5]
    out = []
    for a in anchors:
        for e in eps:
            out.append(a + tol * (1 + e))
            out.append(a + tol * (1 + e) / 2 ** 3 + 2 ** -9 * pi)   # one step further down
    return out


def random_near_tol(rng, tol):
    anchor = rng.choice([0.0, rng.randrange(-64, 64) * math.pi / 2 ** rng.randrange(0, 7), rng.uniform(-7, 7)])
    return anchor + tol * (1 + rng.uniform(0, 1.2e-2))


def random_angle(rng):
    c = rng.randrange(8)
    if c == 0:
        return rng.uniform(-10, 10)
    if c == 1:
        return rng.uniform(0, 2 * math.pi)
    if c == 2:
        return rng.uniform(-1e3, 1e3)
    if c == 3:  # log-uniform magnitude
        return rng.choice([-1, 1]) * 10 ** rng.uniform(-12, 6)
    if c == 4:  # short dyadic multiple of pi, perturbed by a few ulps
        return nxt(rng.randrange(1, 4096) * math.pi / 2 ** rng.randrange(0, 14), rng.randrange(-2, 3))
    if c == 5:  # few significant bits
        return math.ldexp(rng.randrange(1, 1 << rng.randrange(1, 12)), rng.randrange(-30, 6)) * rng.choice([-1, 1])
    if c == 6:  # near a multiple of 2 pi
        return rng.randrange(-50, 50) * 2 * math.pi + rng.choice([-1, 1]) * 10 ** rng.uniform(-12, -1)
    return math.ldexp(rng.random(), rng.randrange(-40, 12)) * rng.choice([-1, 1])


def random_tol(rng):
    if rng.random() < 0.7:
        return rng.choice(TOLS)
    return 10 ** rng.uniform(-9, -1)


# ---------------------------------------------------------------- equal values of different numeric types


def typed_variants(a):
    """(label, value of another numeric type, the double it denotes) for a finite double `a`"""
    out = [("np.float64", np.float64(a), float(a))]
    with np.errstate(all="ignore"):
        f32 = np.float32(a)
        if np.isfinite(f32):
            out.append(("np.float32", f32, float(f32)))
        f16 = np.float16(a)
        if np.isfinite(f16):
            out.append(("np.float16", f16, float(f16)))
    out.append(("Fraction", Fraction(a), float(a)))
    if a == int(a) and abs(a) < 2 ** 31:
        out += [("int", int(a), float(a)), ("np.int64", np.int64(int(a)), float(a)),
                ("np.int32", np.int32(int(a)), float(a))]
        if a in (0.0, 1.0):
            out.append(("bool", bool(a), float(a)))
    return out


# ---------------------------------------------------------------- aliasing of returned objects


def scribble(lst, how):
    """modify a returned list IN PLACE, as a careless caller might"""
    if how == 0:
        lst.append((1, 1))
    elif how == 1:
        lst.clear()
    elif how == 2:
        lst.reverse()
        lst.append((255, 0))
    elif how == 3 and lst:
        lst.pop()
    else:
        lst.insert(0, (3, 2))


def alias_check(a, tol, how, fb=None, axis="X"):
    """call, scribble over the result, call again with the same arguments (the builder's call signature and the
    positional / keyword variants, and through the builder): later results must equal the first one and must not
    be the same object. Returns a list of failure descriptions."""
    g = state_prep.get_angle_spec_from_float
    bad = []
    default = default_tol()
    calls = [("g(angle=a, tol=tol)", lambda: g(angle=a, tol=tol)), ("g(a, tol)", lambda: g(a, tol)),
             ("g(a, tol=tol)", lambda: g(a, tol=tol))]
    if tol == default:
        calls += [("g(angle=a)", lambda: g(angle=a)), ("g(a)", lambda: g(a))]
    with np.errstate(all="ignore"):
        for name, call in calls:
            first = call()
            ref = [tuple(p) for p in first]
            scribble(first, how)
            for name2, call2 in calls:
                again = call2()
                if [tuple(p) for p in again] != ref:
                    bad.append("%s returns %r after a caller modified the list returned by %s (expected %r)"
                               % (name2, again, name, ref))
                    break
                if again is first:
                    bad.append("%s returned the very list object an earlier %s had returned" % (name2, name))
                    break
            if bad:
                break
        if fb is not None and tol == default and not bad:
            first = g(angle=a)              # the call signature the builder uses
            ref = [tuple(p) for p in first]
            scribble(first, how)
            kind, cmds = fb.emit(axis, a)
            rots = [(c[3], c[4]) for c in cmds if c[0] == "rot"] if kind == "ok" else None
            if rots != ref:
                bad.append("q.rot_%s(angle=a) emits %r after a caller modified a list returned for the same angle "
                           "(expected %r)" % (axis, rots, ref))
    return bad


# ---------------------------------------------------------------- builder path


AXES = "XYZ"


class FastBuilder:
    """One DebugConnection, one qubit (virtual id 1); `emit(axis, a)` calls the real `q.rot_<axis>(angle=a)` and
    returns the pending commands the builder appended, canonicalised as the Lean driver prints them:
    ["set", reg, value] / ["rot", axis index, reg, n, d]; ('raise', class) if the SDK raises."""

    def __init__(self):
        from netqasm.lang.ir import GenericInstr, ICmd
        from netqasm.sdk.connection import BaseNetQASMConnection, DebugConnection
        from netqasm.sdk.qubit import Qubit
        from netqasm.sdk.shared_memory import SharedMemoryManager
        SharedMemoryManager.reset_memories()
        BaseNetQASMConnection._app_ids.clear()
        DebugConnection.node_ids = {"A": 0}
        self.ICmd, self.G = ICmd, GenericInstr
        self.rots = {GenericInstr.ROT_X: 0, GenericInstr.ROT_Y: 1, GenericInstr.ROT_Z: 2}
        self.conn = DebugConnection("A")
        Qubit(self.conn)
        self.q = Qubit(self.conn)
        self.vq = self.q.qubit_id
        self.conn.builder.subrt_pop_pending_subroutine()

    def emit(self, axis, a, nd=None):
        """nd = explicit (n, d) passed TOGETHER with the angle (documented as ignored then)"""
        try:
            with np.errstate(all="ignore"):
                if nd is None:
                    getattr(self.q, "rot_" + axis)(angle=a)
                else:
                    getattr(self.q, "rot_" + axis)(n=nd[0], d=nd[1], angle=a)
            sub = self.conn.builder.subrt_pop_pending_subroutine()
        except Exception as e:  # noqa
            try:
                self.conn.builder.subrt_pop_pending_subroutine()
            except Exception:  # noqa
                pass
            return "raise", type(e).__name__
        out = []
        for c in (sub.commands if sub is not None else []):
            if not isinstance(c, self.ICmd):
                out.append(["other", type(c).__name__])
            elif c.instruction == self.G.SET:
                out.append(["set", c.operands[0].index, c.operands[1]])
            elif c.instruction in self.rots:
                out.append(["rot", self.rots[c.instruction], c.operands[0].index, c.operands[1], c.operands[2]])
            else:
                out.append(["other", str(c.instruction)])
        return "ok", out


class SeqBuilder:
    """SEQUENCES of SDK calls on two qubits of one DebugConnection: `run(calls)` performs the real calls
    (("rot", qubit 0/1, axis, {"angle": a} | {"n": n, "d": d}) or ("gate", qubit, "H"|"X"|…)) without flushing in
    between and returns, in emission order, ("rot", virtual id, axis index, n, d) / ("gate", virtual id, name)."""

    def __init__(self):
        from netqasm.lang.ir import GenericInstr, ICmd
        from netqasm.sdk.connection import BaseNetQASMConnection, DebugConnection
        from netqasm.sdk.qubit import Qubit
        from netqasm.sdk.shared_memory import SharedMemoryManager
        SharedMemoryManager.reset_memories()
        BaseNetQASMConnection._app_ids.clear()
        DebugConnection.node_ids = {"A": 0}
        self.ICmd, self.G = ICmd, GenericInstr
        self.rots = {GenericInstr.ROT_X: 0, GenericInstr.ROT_Y: 1, GenericInstr.ROT_Z: 2}
        self.conn = DebugConnection("A")
        self.qs = [Qubit(self.conn), Qubit(self.conn)]
        self.conn.builder.subrt_pop_pending_subroutine()

    def run(self, calls):
        try:
            with np.errstate(all="ignore"):
                for c in calls:
                    q = self.qs[c[1]]
                    if c[0] == "rot":
                        getattr(q, "rot_" + c[2])(**c[3])
                    else:
                        getattr(q, c[2])()
            sub = self.conn.builder.subrt_pop_pending_subroutine()
        except Exception as e:  # noqa
            try:
                self.conn.builder.subrt_pop_pending_subroutine()
            except Exception:  # noqa
                pass
            return "raise", type(e).__name__
        regs, out = {}, []
        for c in (sub.commands if sub is not None else []):
            if not isinstance(c, self.ICmd):
                continue
            if c.instruction == self.G.SET:
                regs[c.operands[0].index] = c.operands[1]
            elif c.instruction in self.rots:
                out.append(("rot", regs.get(c.operands[0].index), self.rots[c.instruction], c.operands[1], c.operands[2]))
            else:
                ops = [o for o in c.operands if hasattr(o, "index")]
                out.append(("gate", regs.get(ops[0].index) if ops else None, str(c.instruction)))
        return "ok", out


def gen_rotation_sequence(rng):
    """2-4 rotation calls on qubit 0 (float angles and explicit (n, d); same and different axes; equal d >= 8 with
    large numerators), interleaved with gates / rotations on qubit 1 and now and then a gate on qubit 0"""
    calls = []
    axes = "XYZ"
    ax = rng.choice(axes)
    dd = rng.choice([8, 9, 10, 12, 16, 3, 5])
    for _ in range(rng.randrange(2, 5)):
        if rng.random() < 0.3:
            ax = rng.choice(axes)
        kind = rng.randrange(4)
        if kind == 0:       # explicit (n, d), the same d as before, large numerator
            arg = {"n": rng.choice([129, 201, 255, 128, 200, rng.randrange(1, 256)]), "d": dd}
        elif kind == 1:     # a float that is exactly n pi / 2^d with that d
            nn = rng.choice([129, 201, 101, 255, rng.randrange(1, 256)])
            while (nn % 2 ** (dd + 1)) * 1000 < 2 ** dd or (2 ** (dd + 1) - nn % 2 ** (dd + 1)) * 1000 < 2 ** dd:
                nn += 1     # not a multiple of 2 pi (such a call emits nothing and the runs would not line up)
            arg = {"angle": nn * math.pi / 2 ** dd}
        elif kind == 2:
            arg = {"angle": rng.uniform(0.1, 6.0)}
        else:
            arg = {"n": rng.randrange(1, 256), "d": rng.randrange(0, 14)}
        calls.append(("rot", 0, ax, arg))
        r = rng.random()
        if r < 0.25:        # something on the OTHER qubit in between
            calls.append(("rot", 1, rng.choice(axes), {"angle": rng.uniform(0.1, 6.0)}) if rng.random() < 0.5
                         else ("gate", 1, rng.choice(["H", "X", "Z"])))
        elif r < 0.35:      # a gate on the same qubit ends the run
            calls.append(("gate", 0, rng.choice(["H", "X"])))
    return calls


def check_rotation_sequence(calls, emitted, vqs, tol0):
    """TOTAL emitted rotation of every maximal same-axis run (per qubit) vs the sum of the requested angles, modulo
    2 pi, within the summed tolerance; exact rational arithmetic in units of pi. Returns failure texts."""
    bad = []
    for qi, vq in enumerate(vqs):
        req = []            # requested runs: [axis, total (Fraction, units of pi), tolerance (radians)] or "gate"
        for c in calls:
            if c[1] != qi:
                continue
            if c[0] == "gate":
                req.append("gate")
                continue
            axis = "XYZ".index(c[2])
            if "angle" in c[3]:
                val, tol = Fraction(c[3]["angle"]) / PI, Fraction(tol0) + slack(c[3]["angle"], tol0)
            else:
                val, tol = Fraction(c[3]["n"], 1 << c[3]["d"]), Fraction(0)
            if req and req[-1] != "gate" and req[-1][0] == axis:
                req[-1][1] += val
                req[-1][2] += tol
            else:
                req.append([axis, val, tol])
        em = []
        for e in emitted:
            if e[1] != vq:
                continue
            if e[0] == "gate":
                em.append("gate")
            elif em and em[-1] != "gate" and em[-1][0] == e[2]:
                em[-1][1] += Fraction(e[3], 1 << e[4])
                em[-1][2].append((e[3], e[4]))
            else:
                em.append([e[2], Fraction(e[3], 1 << e[4]), [(e[3], e[4])]])
        if len(req) != len(em) or any((a == "gate") != (b == "gate") or (a != "gate" and a[0] != b[0])
                                      for a, b in zip(req, em)):
            bad.append("qubit %d: the emitted runs %s do not line up with the requested runs %s"
                       % (qi, [x if x == "gate" else (x[0], x[2]) for x in em],
                          [x if x == "gate" else (x[0], float(x[1])) for x in req]))
            continue
        for a, b in zip(req, em):
            if a == "gate":
                continue
            x = (b[1] - a[1]) * PI
            k = round(x / TWO_PI)
            err = abs(x - k * TWO_PI)
            if err > a[2]:
                bad.append("qubit %d, axis %s: the emitted steps %s rotate by %.9f pi in total but the calls of this run "
                           "ask for %.9f pi (mod 2): off by %.3e rad, summed tolerance %.3e"
                           % (qi, "XYZ"[a[0]], b[2], float(b[1]), float(a[1]), float(err), float(a[2])))
    return bad


def builder_rotations(cases):
    """Build `q.rot_<axis>(angle=a)` on a DebugConnection; return per case the list of (n, d)
    operands of the emitted rotation instructions, or ('raise', class)."""
    from netqasm.backend.messages import SubroutineMessage, deserialize_host_msg
    from netqasm.lang.parsing import deserialize
    from netqasm.sdk.connection import BaseNetQASMConnection, DebugConnection
    from netqasm.sdk.qubit import Qubit
    from netqasm.sdk.shared_memory import SharedMemoryManager

    out = []
    for axis, a in cases:
        SharedMemoryManager.reset_memories()
        BaseNetQASMConnection._app_ids.clear()
        DebugConnection.node_ids = {"A": 0}
        try:
            with np.errstate(all="ignore"):
                c = DebugConnection("A")
                q = Qubit(c)
                getattr(q, "rot_" + axis)(angle=a)
                c.flush()
            rots = []
            for raw in c.storage:
                m = deserialize_host_msg(raw)
                if isinstance(m, SubroutineMessage):
                    for i in deserialize(m.subroutine).instructions:
                        if i.mnemonic == "rot_" + axis.lower():
                            rots.append((i.angle_num.value, i.angle_denom.value))
            out.append(("ok", rots))
        except Exception as e:  # noqa
            out.append(("raise", type(e).__name__))
    return out
