"""Real-code side of the `epr` correspondence stream (C12, C11).

Part 1 (C12): scenarios = a few applications / subroutines issuing create/recv requests + scripted
link-layer responses; schedules over {step one instruction, deliver a response, poll}; replay on the real
`Executor` (instruction-granularity yields) and translation into the action list of the Lean model
(`Model/Epr.lean`, driver op `epr.run`); a model-free oracle evaluates the invariants of the property on
the real executor's fields after every action.
"""
import itertools
import logging

from vlib import common

common.use_repo()
from netqasm.backend.executor import Executor  # noqa: E402
from netqasm.backend.network_stack import OK_FIELDS_K, BaseNetworkStack  # noqa: E402
from netqasm.lang.parsing.text import parse_text_subroutine  # noqa: E402
from netqasm.qlink_compat import (Basis, BellState, LinkLayerOKTypeK, LinkLayerOKTypeM,  # noqa: E402
                                  ReturnType)
from netqasm.sdk.shared_memory import SharedMemoryManager  # noqa: E402

logging.getLogger().setLevel(logging.CRITICAL)
NODE_ID = 0


def quiet():
    logging.disable(logging.CRITICAL)


# ------------------------------------------------------------------ real-code adapters


def purpose_of(remote_node_id, epr_socket_id):
    """purpose id the fake network stack assigns to (remote node, local EPR socket id)"""
    return remote_node_id * 1000 + epr_socket_id


class InjectedFault(Exception):
    """raised by the fake network stack when the harness asked for a fault at the next call"""


class RecordingStack(BaseNetworkStack):
    def __init__(self):
        self.requests = []
        self.fail_next = None      # "put" | "purpose": the next such call raises

    def put(self, request):
        if self.fail_next == "put":
            self.fail_next = None
            raise InjectedFault("network stack refuses the request")
        self.requests.append(request)

    def setup_epr_socket(self, epr_socket_id, remote_node_id, remote_epr_socket_id, timeout=1.0):
        pass

    def get_purpose_id(self, remote_node_id, epr_socket_id):
        if self.fail_next == "purpose":
            self.fail_next = None
            raise InjectedFault("network stack does not know the socket")
        # depends on BOTH the remote node and the local socket id (injective per remote node)
        return purpose_of(remote_node_id, epr_socket_id)


class SteppingExecutor(Executor):
    """Base executor with the documented extension points overridden: yields before every instruction
    and at every `_do_wait`; `_wait_to_handle_epr_responses` does nothing (simulators re-poll later)."""

    @property
    def node_id(self):
        return getattr(self, "_verif_node_id", NODE_ID)

    def _do_wait(self):
        yield "wait"

    def _wait_to_handle_epr_responses(self):
        pass

    def _execute_command(self, subroutine_id, command):
        yield "pre"
        yield from super()._execute_command(subroutine_id, command)


def new_executor(name="verif-node", node_id=NODE_ID, reset=True):
    if reset:
        SharedMemoryManager.reset_memories()
    ex = SteppingExecutor(name=name)
    ex._verif_node_id = node_id
    ex.network_stack = RecordingStack()
    return ex


# ------------------------------------------------------------------ scenarios


class Req:
    def __init__(self, role, ty, remote, purpose, number, vids):
        self.role, self.ty, self.remote, self.purpose, self.number, self.vids = role, ty, remote, purpose, number, vids
        self._waited = self._freed = self._stuck = False

    def desc(self):
        return [self.role, self.ty, self.remote, self.purpose, self.number, self.vids]


class SubProg:
    """lines: list of (text, action template).  `sub` in a template is filled in when the subroutine
    is started (ids are handed out in start order by the executor)."""

    def __init__(self, app, regbase):
        self.app = app
        self.rb = regbase
        self.lines = []
        self.reqs = []

    def R(self, i):
        return "R%d" % (self.rb + i)

    def emit(self, text, act):
        self.lines.append((text, act))

    def set(self, i, v):
        self.emit("set %s %d" % (self.R(i), v), {"a": "nop"})

    # ---- abstract ops
    def op_array(self, addr, ln):
        self.set(0, ln)
        self.emit("array %s @%d" % (self.R(0), addr), {"a": "array", "addr": addr, "len": ln})

    def op_store(self, addr, idx, val):
        self.set(0, val)
        self.set(1, idx)
        self.emit("store %s @%d[%s]" % (self.R(0), addr, self.R(1)),
                  {"a": "store", "addr": addr, "idx": idx, "val": val})

    def op_qalloc(self, v):
        self.emit("set Q%d %d" % (self.rb, v), {"a": "nop"})
        self.emit("qalloc Q%d" % self.rb, {"a": "qalloc", "v": v})

    def op_qfree(self, v):
        self.emit("set Q%d %d" % (self.rb, v), {"a": "nop"})
        self.emit("qfree Q%d" % self.rb, {"a": "qfree", "v": v})

    def op_create(self, req, q, args, res, rejected=None):
        self.set(0, req.remote)
        self.set(1, req.purpose)
        if q is not None:
            self.set(2, q)
        self.set(3, args)
        self.set(4, res)
        qreg = self.R(2) if q is not None else "C15"
        if rejected:
            self.emit("create_epr %s %s %s %s %s" % (self.R(0), self.R(1), qreg, self.R(3), self.R(4)),
                      {"a": "rejected", "where": rejected})
            return
        self.emit("create_epr %s %s %s %s %s" % (self.R(0), self.R(1), qreg, self.R(3), self.R(4)),
                  {"a": "create", "remote": req.remote, "purpose": purpose_of(req.remote, req.purpose),
                   "isK": req.ty == "K",
                   "number": req.number, "q": q, "res": res})

    def op_recv(self, req, q, res, rejected=None):
        self.set(0, req.remote)
        self.set(1, req.purpose)
        if q is not None:
            self.set(2, q)
        self.set(4, res)
        qreg = self.R(2) if q is not None else "C15"
        if rejected:
            self.emit("recv_epr %s %s %s %s" % (self.R(0), self.R(1), qreg, self.R(4)),
                      {"a": "rejected", "where": rejected})
            return
        self.emit("recv_epr %s %s %s %s" % (self.R(0), self.R(1), qreg, self.R(4)),
                  {"a": "recv", "remote": req.remote, "purpose": purpose_of(req.remote, req.purpose), "q": q,
                   "res": res})

    def op_wait(self, kind, addr, lo, hi):
        if kind == "single":
            self.set(0, lo)
            self.emit("wait_single @%d[%s]" % (addr, self.R(0)),
                      {"a": "wait", "kind": kind, "addr": addr, "lo": lo, "hi": 0})
        else:
            self.set(0, lo)
            self.set(1, hi)
            self.emit("wait_%s @%d[%s:%s]" % (kind, addr, self.R(0), self.R(1)),
                      {"a": "wait", "kind": kind, "addr": addr, "lo": lo, "hi": hi})

    def text(self):
        return "# NETQASM 0.0\n# APPID %d\n" % self.app + "\n".join(t for t, _ in self.lines) + "\n"


class RespSpec:
    def __init__(self, uid, ty, remote, purpose, dirflag, phys, rng):
        self.uid, self.ty, self.remote, self.purpose, self.dir, self.phys = uid, ty, remote, purpose, dirflag, phys
        # sequence numbers: small, or around the 16- / 32-bit wrap-around of a link layer's counter
        self.seq = rng.choice([0, 65535, 65536, 2 ** 31 - 1]) if rng.random() < 0.2 else rng.randrange(0, 50)
        self.goodness = rng.randrange(0, 1000)
        self.gtime = rng.randrange(0, 1000)
        self.bell = rng.randrange(4)
        self.outcome = rng.randrange(2)
        self.basis = rng.randrange(5)
        self.cid = uid           # create_id on the wire (per-link numbering makes it repeat across remote nodes)
        self.form10 = False      # deliver in qlink-interface 1.0 form (converted by response_from_qlink_1_0)
        self.bellenum = False    # 1.0 form: bell_state as a qlink_interface.BellState member instead of an int

    def real10(self):
        """the same response as the link layer's qlink-interface 1.0 object"""
        import qlink_interface as ql10
        bell = ql10.BellState(self.bell) if self.bellenum else self.bell
        if self.ty == "K":
            return ql10.ResCreateAndKeep(create_id=self.cid, directionality_flag=self.dir,
                                         sequence_number=self.seq, purpose_id=self.purpose,
                                         remote_node_id=self.remote, goodness=self.goodness, bell_state=bell,
                                         logical_qubit_id=self.phys, time_of_goodness=self.gtime)
        return ql10.ResMeasureDirectly(create_id=self.cid, directionality_flag=self.dir,
                                       sequence_number=self.seq, purpose_id=self.purpose,
                                       remote_node_id=self.remote, goodness=self.goodness, bell_state=bell,
                                       measurement_outcome=self.outcome,
                                       measurement_basis=ql10.MeasurementBasis(self.basis))

    def real(self):
        """what is handed to the executor"""
        if getattr(self, "form10", False):
            return self.real10()
        return self.native()

    def native(self):
        """the response as a qlink_compat tuple (reference for the oracles)"""
        if self.ty == "K":
            return LinkLayerOKTypeK(type=ReturnType.OK_K, create_id=self.cid, logical_qubit_id=self.phys,
                                    directionality_flag=self.dir, sequence_number=self.seq,
                                    purpose_id=self.purpose, remote_node_id=self.remote,
                                    goodness=self.goodness, goodness_time=self.gtime,
                                    bell_state=BellState(self.bell))
        return LinkLayerOKTypeM(type=ReturnType.OK_M, create_id=self.cid, measurement_outcome=self.outcome,
                                measurement_basis=Basis(self.basis), directionality_flag=self.dir,
                                sequence_number=self.seq, purpose_id=self.purpose,
                                remote_node_id=self.remote, goodness=self.goodness,
                                bell_state=BellState(self.bell))

    def fields(self):
        if self.ty == "K":
            return [0, self.cid, self.phys, self.dir, self.seq, self.purpose, self.remote, self.goodness,
                    self.gtime, self.bell]
        return [1, self.cid, self.outcome, self.basis, self.dir, self.seq, self.purpose, self.remote,
                self.goodness, self.bell]

    def action(self):
        return {"a": "deliver", "ty": 0 if self.ty == "K" else 1, "remote": self.remote,
                "purpose": self.purpose, "dir": self.dir, "phys": self.phys, "fields": self.fields()}

    def ident(self):
        """what identifies the response on the wire: a link numbers its create ids and pairs itself"""
        return (self.remote, self.cid, self.seq, self.dir)

    def key(self):
        creator = (self.remote == NODE_ID) if self.dir == 1 else True
        return (self.remote, self.purpose, creator)


def wire_ident(r):
    """`RespSpec.ident` of a response object held by the executor (qlink_compat tuple)"""
    return (r.remote_node_id, r.create_id, r.sequence_number, r.directionality_flag)


class Scenario:
    def __init__(self):
        self.apps = {}      # app id -> number of qubits
        self.subs = []      # SubProg
        self.resps = []     # RespSpec
        self.malformed = False
        self.fault = None
        self.one_comm = False

    def desc(self):
        """JSON form, complete (see `from_desc`)"""
        return {"apps": {str(a): n for a, n in self.apps.items()},
                "subs": [{"app": s.app, "reqs": [r.desc() for r in s.reqs],
                          "lines": [[t, a] for t, a in s.lines]} for s in self.subs],
                "resps": [r.__dict__ for r in self.resps],
                "malformed": self.malformed}

    @staticmethod
    def from_desc(d):
        sc = Scenario()
        sc.apps = {int(a): n for a, n in d["apps"].items()}
        for sd in d["subs"]:
            sp = SubProg(sd["app"], 0)
            sp.lines = [(t, a) for t, a in sd["lines"]]
            sp.reqs = [Req(*r) for r in sd["reqs"]]
            sc.subs.append(sp)
        for rd in d["resps"]:
            r = RespSpec.__new__(RespSpec)
            r.__dict__.update(rd)
            sc.resps.append(r)
        sc.malformed = d["malformed"]
        return sc


def gen_scenario(rng, max_reqs=3, max_pairs=3, small=False, malformed=False, mixed_roles=False, faults=False,
                 one_comm=False, per_link=False, two_remotes=False, two_apps=False):
    """Well-formed scenarios (malformed=False) never make the executor raise: subroutines of one
    application own disjoint virtual qubit ids, a request's qubits are freed before a later request of the
    same subroutine reuses them, response types match the request type, result arrays are long enough.

    Link-layer behaviours (parameters):
    * `one_comm`: ONE communication qubit (NV-like) — every keep response carries the SAME logical_qubit_id.
      Keep requests are then of the sequential kind: all pairs of a request go to one virtual qubit, which the
      program frees after each pair (wait for slice k, qfree), one keep request at a time;
    * `per_link`: create ids and sequence numbers are numbered PER LINK (remote node), so responses of
      different remote nodes carry equal (create_id, sequence_number);
    * `two_remotes`: the first two requests go to two different remote nodes."""
    sc = Scenario()
    sc.malformed = malformed
    sc.one_comm = one_comm
    small = small or one_comm
    napps = 1 if small else rng.choice([1, 1, 2])
    nreq = rng.randint(2 if (mixed_roles or two_remotes) else 1,
                       max(2, max_reqs) if (mixed_roles or two_remotes) else max_reqs)
    nsubs = 1 if small else rng.choice([1, 1, 2, 2, 3])
    nsubs = min(nsubs, nreq)
    if two_apps:
        # application life-cycle scenarios: two applications on the node, at least one subroutine each
        napps, nreq = 2, max(nreq, 2)
        nsubs = max(2, min(nsubs, nreq))
    sub_app = [rng.randrange(napps) for _ in range(nsubs)]
    if two_apps:
        sub_app[0], sub_app[1] = 0, 1
    for a in range(napps):
        k = max(1, sub_app.count(a))
        sc.apps[a] = rng.choice([2, 3, 4]) if k == 1 else rng.choice([2, 3]) * k
    next_addr = {a: 0 for a in sc.apps}
    persub = {a: 0 for a in sc.apps}
    own = []      # virtual ids a subroutine may use
    for app in sub_app:
        k = max(1, sub_app.count(app))
        j = persub[app]
        sp = SubProg(app, 5 * j)
        persub[app] += 1
        sc.subs.append(sp)
        ids = list(range(sc.apps[app]))
        own.append(ids if malformed and rng.random() < 0.5 else ids[j::k])
    # few keys so that queues get longer than one
    keys = [(rng.choice([1, 2]), rng.choice([0, 1])) for _ in range(1 if mixed_roles else rng.choice([1, 1, 2]))]
    if two_remotes:
        keys = [(1, rng.choice([0, 1])), (2, rng.choice([0, 1]))]
    first_role = rng.choice(["create", "recv"])
    uid = 0
    keytype = {}
    link_cid = {}     # per-link numbering: next create id / sequence number of each remote node
    link_seq = {}
    for i in range(nreq):
        si = i if i < nsubs else rng.randrange(nsubs)
        sp = sc.subs[si]
        role = rng.choice(["create", "recv"])
        if mixed_roles and i < 2:
            # create and receive roles on ONE socket
            role = first_role if i == 0 else ("recv" if first_role == "create" else "create")
        ty = rng.choice(["K", "M"])
        remote, purpose = keys[i] if (two_remotes and i < 2) else rng.choice(keys)
        if not (malformed and rng.random() < 0.5):
            # one request type per queue (a measure response may overtake a deferred keep response)
            ty = keytype.setdefault((remote, purpose, role), ty)
        number = rng.randint(1, min(max_pairs, len(own[si])) if ty == "K" else max_pairs)
        vids = rng.sample(own[si], number) if ty == "K" else None
        seqstyle = one_comm and ty == "K"
        if seqstyle:
            # sequential kind: every pair of the request arrives in the same virtual qubit
            number = rng.randint(1, max_pairs)
            vids = [rng.choice(own[si])] * number
        req = Req(role, ty, remote, purpose, number, vids)
        # earlier requests of this subroutine holding some of these qubits finish (and free) first
        if ty == "K":
            for old in sp.reqs:
                if old.ty == "K" and not old._freed and (set(old.vids) & set(vids)) and \
                        not (malformed and rng.random() < 0.5):
                    _final_wait(sp, old, rng, free=True)
        sp.reqs.append(req)

        def alloc_addr():
            a = next_addr[sp.app]
            next_addr[sp.app] += 1
            return a
        q = None
        if ty == "K":
            q = alloc_addr()
            sp.op_array(q, number)
            for j, v in enumerate(vids):
                sp.op_store(q, j, v)
        res = alloc_addr()
        reslen = OK_FIELDS_K * number
        if role == "create" and rng.random() < 0.4:
            # a buffer sized for the program's largest request: LONGER than this request needs
            # (the pair count of a create request comes from its arguments, not from the array)
            reslen += OK_FIELDS_K * rng.choice([1, 2, 3])
        if malformed and rng.random() < 0.3:
            reslen = max(0, reslen - rng.choice([1, 5, 10]))
        sp.op_array(res, reslen)
        busy = []
        if ty == "K" and rng.random() < 0.5:
            # the program still holds some of the virtual qubits: responses must be deferred
            for v in ([vids[0]] if seqstyle else rng.sample(vids, rng.randint(1, len(vids)))):
                sp.op_qalloc(v)
                busy.append(v)
        if role == "create":
            args = alloc_addr()
            sp.op_array(args, 20)
            sp.op_store(args, 0, 0 if ty == "K" else 1)
            sp.op_store(args, 1, number)
            sp.op_create(req, q, args, res)
        else:
            sp.op_recv(req, q, res)
        for v in busy:
            if rng.random() < 0.9:
                sp.op_qfree(v)
            else:
                req._stuck = True      # never freed: the request cannot complete
        if rng.random() < 0.3 and reslen > 0:
            kind = rng.choice(["any", "single"])
            if kind == "single":
                sp.op_wait("single", res, rng.randrange(reslen), 0)
            else:
                lo = rng.randrange(reslen)
                sp.op_wait("any", res, lo, rng.randint(lo + 1, reslen))
        req._res, req._q = res, q
        if seqstyle:
            # consume the pairs one by one: wait for slice k, then free the qubit for the next pair
            for k in range(number):
                sp.op_wait("all", res, OK_FIELDS_K * k, OK_FIELDS_K * (k + 1))
                sp.op_qfree(vids[0])
            req._waited = req._freed = True
        elif rng.random() < 0.6:
            _final_wait(sp, req, rng)
        # responses for this request
        for k in range(number):
            rty = ty
            if malformed and rng.random() < 0.15:
                rty = "M" if ty == "K" else "K"
            sc.resps.append(RespSpec(uid, rty, remote, purpose_of(remote, purpose), 1 if role == "recv" else 0,
                                     0 if one_comm else 100 + uid, rng))
            sc.resps[-1].form10 = rng.random() < 0.4
            sc.resps[-1].bellenum = rng.random() < 0.5
            if per_link:
                sc.resps[-1].cid = link_cid.get(remote, 0)
                sc.resps[-1].seq = link_seq.get(remote, 0)
                link_seq[remote] = link_seq.get(remote, 0) + 1
            uid += 1
        if per_link:
            link_cid[remote] = link_cid.get(remote, 0) + 1
    if malformed and rng.random() < 0.15:
        # an instruction the base executor has no handler for (RuntimeError "unknown instr type"); for the
        # bookkeeping model this is just an instruction that raises (a store to a non-existent array)
        sp = rng.choice(sc.subs)
        sp.emit("meas_basis Q%d M0 %d %d %d %d" % (sp.rb, rng.randrange(32), rng.randrange(32), rng.randrange(32), 4),
                {"a": "store", "addr": -1, "idx": 0, "val": 0})
    for sp in sc.subs:
        for req in sp.reqs:
            if not req._waited and not (malformed and rng.random() < 0.5):
                _final_wait(sp, req, rng)
    if faults:
        # fault at the environment boundary: one more subroutine whose create/recv instruction dies inside
        # the network stack (`put` refuses the request, or `get_purpose_id` raises). The link layer never
        # saw that request, so no response exists for it; the other subroutines go on using the same socket.
        creates = [(sp, r) for sp in sc.subs for r in sp.reqs if r.role == "create"]
        target = rng.choice(creates) if creates and rng.random() < 0.8 else None
        app = target[0].app if target else rng.choice(list(sc.apps))
        if persub[app] <= 2:
            fsp = SubProg(app, 5 * persub[app])
            persub[app] += 1
            if target:
                role, ty, remote, purpose = "create", target[1].ty, target[1].remote, target[1].purpose
            else:
                role, ty = rng.choice(["create", "recv"]), "M"
                remote, purpose = rng.choice(keys)
            where = "put" if role == "create" and rng.random() < 0.7 else "purpose"
            nq = sc.apps[app]
            number = rng.randint(1, min(2, nq))
            vids = rng.sample(range(nq), number) if ty == "K" else None
            freq = Req(role, ty, remote, purpose, number, vids)
            q = None
            if ty == "K":
                q = next_addr[app]
                next_addr[app] += 1
                fsp.op_array(q, number)
                for j, v in enumerate(vids):
                    fsp.op_store(q, j, v)
            res = next_addr[app]
            next_addr[app] += 1
            fsp.op_array(res, OK_FIELDS_K * number)
            if role == "create":
                args = next_addr[app]
                next_addr[app] += 1
                fsp.op_array(args, 20)
                fsp.op_store(args, 0, 0 if ty == "K" else 1)
                fsp.op_store(args, 1, number)
                fsp.op_create(freq, q, args, res, rejected=where)
            else:
                fsp.op_recv(freq, q, res, rejected=where)
            fsp.op_wait("all", res, 0, OK_FIELDS_K * number)      # never reached
            sc.subs.insert(rng.randrange(len(sc.subs) + 1), fsp)
            sc.fault = where
    # stray responses (no request), sometimes
    if rng.random() < (0.5 if malformed else 0.15):
        remote, purpose = rng.choice(keys + [(3, 0)])
        dirflag = rng.choice([0, 1])
        same = [r.ty for sp in sc.subs for r in sp.reqs
                if (r.remote, r.purpose, r.role) == (remote, purpose, "recv" if dirflag else "create")]
        rty = rng.choice(same) if same and not malformed else rng.choice(["K", "M"])
        sc.resps.append(RespSpec(uid, rty, remote, purpose_of(remote, purpose), dirflag, 100 + uid, rng))
        sc.resps[-1].form10 = rng.random() < 0.4
        if per_link:
            sc.resps[-1].cid = link_cid.get(remote, 0)
            sc.resps[-1].seq = link_seq.get(remote, 0)
        uid += 1
    if malformed and rng.random() < 0.3 and len(sc.resps) > 1:
        sc.resps[-1].phys = sc.resps[0].phys    # physical id not fresh
    return sc


def _final_wait(sp, req, rng, free=None):
    req._waited = True
    sp.op_wait("all", req._res, 0, OK_FIELDS_K * req.number)
    if free is None:
        free = rng.random() < 0.8
    if req.ty == "K" and free and not req._freed:
        req._freed = True
        for v in req.vids:
            sp.op_qfree(v)


# ------------------------------------------------------------------ schedules


def random_schedule(sc, rng, early=0, stops=False):
    """tokens: ("s", sub index) / ("d", response index) / ("p",). Subroutines of one application are
    switched only while the running one sits in a wait (or has ended / not started)."""
    nsteps = {i: len(sp.lines) + 1 for i, sp in enumerate(sc.subs)}    # +1: the start step
    order = list(range(len(sc.resps)))
    if rng.random() < 0.5:
        rng.shuffle(order)
    toks = []
    budget = sum(nsteps.values()) * 2 + 10
    pending_d = list(order)
    # the remote side is ahead: some responses arrive before any instruction ran
    for _ in range(min(early, len(pending_d))):
        toks.append(("d", pending_d.pop(0)))
    for _ in range(budget):
        r = rng.random()
        if pending_d and r < 0.22:
            toks.append(("d", pending_d.pop(0)))
        elif r < 0.30:
            toks.append(("p",))
        else:
            toks.append(("s", rng.randrange(len(sc.subs))))
    toks += [("d", i) for i in pending_d]
    toks += [("p",)] + [("s", i) for i in range(len(sc.subs)) for _ in range(6)]
    if stops:
        # application life cycle: stop_application at arbitrary moments (enabled, in well-formed scenarios,
        # once every subroutine of the application has ended), also while responses are parked for others
        for app in sc.apps:
            for _ in range(4):
                toks.insert(rng.randrange(len(toks) // 3, len(toks) + 1), ("x", app))
        toks += [("p",)] + [("s", i) for i in range(len(sc.subs)) for _ in range(3)]
    return toks


def exhaustive_schedules(sc, cap):
    """all interleavings of the (single) subroutine's steps with the deliveries (in their per-key order,
    keys interleaved arbitrarily), a poll after the last token; at most `cap` schedules."""
    assert len(sc.subs) == 1
    nsteps = len(sc.subs[0].lines) + 1
    bykey = {}
    for i, r in enumerate(sc.resps):
        bykey.setdefault(r.key(), []).append(i)
    seqs = [[("s", 0)] * nsteps] + [[("d", i) for i in v] for v in bykey.values()]

    def merge(seqs):
        if all(not s for s in seqs):
            yield []
            return
        for j, s in enumerate(seqs):
            if s:
                rest = seqs[:j] + [s[1:]] + seqs[j + 1:]
                for tail in merge(rest):
                    yield [s[0]] + tail

    for toks in itertools.islice(merge(seqs), cap):
        # the subroutine may sit in a wait when the last response arrives: give it steps to finish
        yield toks + [("p",)] + [("s", 0)] * 4


# ------------------------------------------------------------------ replay on the real executor


def request_tables(ex):
    """((True, create table), (False, receive table)): outstanding requests per (remote node, id) and role,
    however the executor stores them. The pinned tree keeps two dictionaries; if they are gone, every
    dictionary attribute of the executor whose values are lists of `EprCmdData` is read and its entries are
    split by role (`is_creator` if the entries carry it, else: a create request holds its LinkLayerCreate,
    a receive request holds None), order preserved."""
    if hasattr(ex, "_epr_create_requests") and hasattr(ex, "_epr_recv_requests"):
        return ((True, ex._epr_create_requests), (False, ex._epr_recv_requests))
    from netqasm.backend.executor import EprCmdData
    create, recv = {}, {}
    for name, val in vars(ex).items():
        if not isinstance(val, dict):
            continue
        for key, lst in val.items():
            if not (isinstance(lst, list) and isinstance(key, tuple) and len(key) == 2):
                continue
            for e in lst:
                if not isinstance(e, EprCmdData):
                    continue
                is_creator = getattr(e, "is_creator", e.request is not None)
                (create if is_creator else recv).setdefault(key, []).append(e)
    return ((True, create), (False, recv))


def canon_real(ex, uid2idx, ident2uid):
    apps = {}
    for app, um in ex._qubit_unit_modules.items():
        arrs = ex._app_arrays[app]._arrays
        apps[app] = {"arrays": {a: list(v) for a, v in sorted(arrs.items())}, "unit": list(um)}
    queues = {}
    for creator, d in request_tables(ex):
        for (remote, purpose), lst in d.items():
            if lst:
                queues[(remote, purpose, creator)] = [
                    (e.subroutine_id, e.ent_results_array_address, e.q_array_address, e.tot_pairs, e.pairs_left)
                    for e in lst]
    return {"apps": apps, "used": sorted(ex._used_physical_qubit_addresses), "queues": queues,
            "pending": [uid2idx.get(ident2uid.get(wire_ident(r), -1), -1) for r in ex._pending_epr_responses],
            "subs": {sid: s.app_id for sid, s in sorted(ex._subroutines.items())}}


def canon_model(o):
    apps = {}
    for a in o["apps"]:
        apps[a["app"]] = {"arrays": {ad: v for ad, v in sorted(a["arrays"])}, "unit": a["unit"]}
    queues = {}
    for q in o["queues"]:
        if q["reqs"]:
            queues[(q["remote"], q["purpose"], q["creator"])] = [tuple(r[1:]) for r in q["reqs"]]
    return {"apps": apps, "used": sorted(o["used"]), "queues": queues, "pending": o["pending"],
            "subs": {a: b for a, b in sorted(o["subs"])}}


class Oracle:
    """Invariants (i)-(vi) of C12 evaluated on the real executor's fields, with history kept here."""

    def __init__(self, sc):
        self.sc = sc
        self.delivered = []          # uids in delivery order
        self.consumed = {}           # uid -> (request object id, pair index)
        self.req_objs = {}           # id(obj) -> obj   (keeps retired requests alive)
        self.req_order = {}          # key -> [id(obj)] in issue order
        self.req_count = {}          # id(obj) -> responses consumed
        self.last_left = {}          # id(obj) -> pairs_left after the previous action
        self.violations = []
        self.mixed = False
        self.known_uids = {r.uid for r in sc.resps}
        self.ident2uid = {r.ident(): r.uid for r in sc.resps}
        assert len(self.ident2uid) == len(sc.resps), "harness: responses must be distinguishable on the wire"
        self.expected_issue = []     # true keys of requests issued by the step just executed
        self.true_key = {}           # id(obj) -> (remote, purpose by the stack, creator?)
        self.true_order = {}         # true key -> [id(obj)] in issue order
        self.foreign_reported = False
        self.unaccepted_reported = set()

    def snapshot(self, ex):
        for r in ex._pending_epr_responses:
            if wire_ident(r) not in self.ident2uid and not self.foreign_reported:
                self.foreign_reported = True
                self.bad("a response delivered to ANOTHER executor instance is in this executor's pending list",
                         ident=wire_ident(r))
        snap = {"pending": [self.ident2uid[wire_ident(r)] for r in ex._pending_epr_responses
                            if wire_ident(r) in self.ident2uid],
                "queues": {}, "units": {}}
        # every outstanding create request was accepted by the network stack (`put` returned)
        accepted = ex.network_stack.requests
        for (remote, purpose), lst in request_tables(ex)[0][1].items():
            for e in lst:
                if not any(e.request is a for a in accepted) and id(e) not in self.unaccepted_reported:
                    self.unaccepted_reported.add(id(e))
                    self.bad("a create request the network stack never accepted is outstanding",
                             key=(remote, purpose, True), pairs=e.tot_pairs)
        for creator, d in request_tables(ex):
            for (remote, purpose), lst in d.items():
                key = (remote, purpose, creator)
                snap["queues"][key] = [(id(e), e.pairs_left) for e in lst]
                for e in lst:
                    if id(e) not in self.req_objs:
                        self.req_objs[id(e)] = e
                        self.req_order.setdefault(key, []).append(id(e))
                        self.req_count[id(e)] = 0
                        # the key the request belongs to by the SCENARIO: (remote node, purpose id the network
                        # stack reports for (remote node, socket), role) — independent of where the executor
                        # filed it
                        tk = self.expected_issue.pop(0) if self.expected_issue else key
                        self.true_key[id(e)] = tk
                        self.true_order.setdefault(tk, []).append(id(e))
                        if tk != key:
                            self.bad("a request is filed under (remote node, id, role) %s but the network stack "
                                     "reports purpose %s for its (remote node, socket): responses of that "
                                     "socket cannot reach it" % (key, tk[1]), filed=key, expected=tk)
        for app, um in ex._qubit_unit_modules.items():
            snap["units"][app] = list(um)
        return snap

    def quiescent(self, ex, resp_by_uid):
        per_key_pending = {}
        for r in ex._pending_epr_responses:
            if wire_ident(r) not in self.ident2uid:
                continue
            spec = resp_by_uid[self.ident2uid[wire_ident(r)]]
            key = spec.key()
            per_key_pending.setdefault(key, []).append(spec)
            d = request_tables(ex)[0 if key[2] else 1][1]
            lst = d.get((key[0], key[1]), [])
            if not lst:
                # nothing filed under the response's key; is a request for this (node, purpose, role)
                # outstanding all the same (filed elsewhere)?
                lst = [self.req_objs[o] for o in self.true_order.get(key, []) if self.req_objs[o].pairs_left != 0]
            if not lst:
                continue
            head = lst[0]
            if spec.ty == "M":
                self.bad("(quiescence) a measure response stays pending although its queue has an outstanding "
                         "request", key=key, uid=spec.uid)
                continue
            try:
                app = ex._get_app_id(head.subroutine_id)
                k = head.tot_pairs - head.pairs_left
                v = ex._app_arrays[app]._arrays[head.q_array_address][k]
                um = ex._qubit_unit_modules[app]
                free = 0 <= v < len(um) and um[v] is None
            except Exception:
                continue
            if free:
                self.bad("(quiescence) a keep response stays pending although the head request's virtual qubit "
                         "is free", key=key, uid=spec.uid, virtual=v)
        # a request whose queue received all its responses is retired: when nothing of a queue is pending,
        # the number of delivered responses decides which requests (in issue order) must be complete
        ndel = {}
        for u in self.delivered:
            ndel[resp_by_uid[u].key()] = ndel.get(resp_by_uid[u].key(), 0) + 1
        for key, order in self.true_order.items():
            if per_key_pending.get(key):
                continue
            have = ndel.get(key, 0)
            for oid in order:
                obj = self.req_objs[oid]
                if obj.tot_pairs <= 0:
                    break
                if have >= obj.tot_pairs:
                    have -= obj.tot_pairs
                    if obj.pairs_left != 0:
                        self.bad("(iv) a request whose queue received all its responses is not retired",
                                 key=key, tot=obj.tot_pairs, left=obj.pairs_left)
                else:
                    break

    def bad(self, what, **kw):
        self.violations.append(dict(what=what, **kw))

    def after(self, ex, before, tok, resp_by_uid, waited=None):
        now = self.snapshot(ex)
        if tok[0] == "d":
            self.delivered.append(self.sc.resps[tok[1]].uid)
        # (i) every delivered response is pending or consumed, never both, never lost
        gone = [u for u in before["pending"] + ([self.sc.resps[tok[1]].uid] if tok[0] == "d" else [])
                if u not in now["pending"]]
        for u in now["pending"]:
            if u in self.consumed:
                self.bad("(i) consumed response is pending again", uid=u)
        if len(set(now["pending"])) != len(now["pending"]):
            self.bad("(i) duplicate in pending list")
        for u in self.delivered:
            if u not in now["pending"] and u not in self.consumed and u not in gone:
                self.bad("(i) delivered response lost", uid=u)
        # attribute the responses consumed by this action, per key
        bykey = {}
        for u in gone:
            bykey.setdefault(resp_by_uid[u].key(), []).append(u)
        for key, order in self.req_order.items():
            inq_now = [i for i, _ in now["queues"].get(key, [])]
            left_before = {oid: self.last_left.get(oid, self.req_objs[oid].tot_pairs) for oid in order}
            took = []    # (request obj id, how many) in issue order
            for oid in order:
                obj = self.req_objs[oid]
                was = left_before[oid]
                cur = obj.pairs_left
                if cur != was:
                    took.append((oid, was - cur))
                # (iv) in the queue exactly while fewer than tot_pairs were consumed
                if (oid in inq_now) != (cur != 0):
                    self.bad("(iv) request in queue iff pairs_left != 0 fails", key=key,
                             tot=obj.tot_pairs, left=cur, in_queue=oid in inq_now)
                if cur < 0 or cur > obj.tot_pairs:
                    self.bad("(iv) pairs_left out of range", key=key, left=cur)
                self.last_left[oid] = cur
            ntook = sum(n for _, n in took)
            uids = bykey.get(key, [])
            if ntook != len(uids):
                self.bad("(i)/(iv) consumed responses != pairs_left decrements", key=key,
                         responses=len(uids), decrements=ntook)
                continue
            # (ii) only the oldest outstanding request(s): decrements form a prefix in issue order,
            # every request before the last decremented one is now retired
            alive_before = [oid for oid in order if left_before[oid] != 0]
            tookids = [oid for oid, _ in took]
            if tookids != alive_before[:len(tookids)]:
                self.bad("(ii) a request other than the oldest consumed a response", key=key)
            for oid in tookids[:-1]:
                if self.req_objs[oid].pairs_left != 0:
                    self.bad("(ii) younger request served before the older one was complete", key=key)
            # (iii) slices and qubit maps
            types = {resp_by_uid[u].ty for u in uids}
            pos = 0
            for oid, n in took:
                obj = self.req_objs[oid]
                k0 = self.req_count[oid]
                if obj.tot_pairs - left_before[oid] != k0:
                    self.bad("(iii) pair index != number of responses consumed so far", key=key)
                mine = uids[pos:pos + n]
                pos += n
                try:
                    app = ex._get_app_id(obj.subroutine_id)
                    arr = ex._app_arrays[app]._arrays[obj.ent_results_array_address]
                except Exception:
                    self.bad("(iii) result array of the request is gone", key=key)
                    continue
                slices = [arr[(k0 + j) * OK_FIELDS_K:(k0 + j + 1) * OK_FIELDS_K] for j in range(n)]
                want = [resp_by_uid[u].fields() for u in mine]
                if len(types) == 1:
                    ok = slices == want
                else:
                    self.mixed = True
                    ok = sorted(map(tuple, slices)) == sorted(map(tuple, want))
                    # which response went where
                    mine = [next((u for u in mine if resp_by_uid[u].fields() == s), None) for s in slices]
                if not ok:
                    self.bad("(iii) slice k of the result array != k-th consumed response", key=key,
                             k0=k0, slices=slices, want=want)
                for j, u in enumerate(mine):
                    if u is None:
                        continue
                    self.consumed[u] = (oid, k0 + j)
                    r = resp_by_uid[u]
                    if r.ty == "K":
                        v = None
                        try:
                            v = ex._app_arrays[app]._arrays[obj.q_array_address][k0 + j]
                            um = ex._qubit_unit_modules[app]
                            mapped = um[v]
                        except Exception:
                            mapped = "?"
                        # mapped unless the program freed it again within the same action (impossible here)
                        if mapped != r.phys:
                            self.bad("(iii) k-th virtual qubit not mapped to the response's qubit", key=key,
                                     k=k0 + j, mapped=mapped, phys=r.phys)
                        # (v) it was free before
                        ub = before["units"].get(app, [])
                        if isinstance(v, int) and 0 <= v < len(ub) and ub[v] is not None:
                            self.bad("(v) keep response consumed while its virtual qubit was allocated",
                                     key=key, v=v)
                self.req_count[oid] += n
        # quiescence (liveness of the matching): after a delivery or a poll no HANDLEABLE response is left
        # pending — a pending response either has no outstanding request for its (node, purpose, role), or
        # is a keep response whose virtual qubit is still allocated
        if tok[0] in ("d", "p"):
            self.quiescent(ex, resp_by_uid)
        # (v) no unit-module entry is overwritten
        for app, um in now["units"].items():
            for v, (a, b) in enumerate(zip(before["units"].get(app, um), um)):
                if a is not None and b is not None and a != b:
                    self.bad("(v) allocated virtual qubit overwritten", app=app, v=v, old=a, new=b)
        # (vi) a completed wait saw its entries defined
        if waited is not None:
            kind, app, addr, lo, hi = waited
            arr = ex._app_arrays[app]._arrays.get(addr)
            if arr is None:
                self.bad("(vi) wait completed on a missing array")
            elif kind == "all" and any(x is None for x in arr[lo:hi]):
                self.bad("(vi) wait_all completed with undefined entries", addr=addr, lo=lo, hi=hi)
            elif kind == "any" and all(x is None for x in arr[lo:hi]):
                self.bad("(vi) wait_any completed with no defined entry", addr=addr, lo=lo, hi=hi)
            elif kind == "single" and arr[lo] is None:
                self.bad("(vi) wait_single completed on an undefined entry", addr=addr, idx=lo)
        return now


def enc_instr(ins):
    """real instruction object -> JSON instruction of the controller model (driver op `ctl.run`)"""
    def rg(r):
        return [r.name.value, r.index]
    m = ins.mnemonic
    if m == "set":
        return ["set"] + rg(ins.reg) + [ins.imm.value]
    if m == "array":
        return ["array"] + rg(ins.reg) + [ins.address.address]
    if m == "store":
        return ["store"] + rg(ins.reg) + [ins.entry.address.address] + rg(ins.entry.index)
    if m in ("qalloc", "qfree"):
        return [m] + rg(ins.reg)
    if m == "create_epr":
        return [m] + rg(ins.reg0) + rg(ins.reg1) + rg(ins.reg2) + rg(ins.reg3) + rg(ins.reg4)
    if m == "recv_epr":
        return [m] + rg(ins.reg0) + rg(ins.reg1) + rg(ins.reg2) + rg(ins.reg3)
    if m in ("wait_all", "wait_any"):
        return [m, ins.slice.address.address] + rg(ins.slice.start) + rg(ins.slice.stop)
    if m == "wait_single":
        return [m, ins.entry.address.address] + rg(ins.entry.index)
    if m == "meas_basis":
        return [m] + rg(ins.reg0) + rg(ins.reg1) + [ins.imm0.value, ins.imm1.value, ins.imm2.value, ins.imm3.value]
    raise ValueError("harness: no controller-model encoding for " + m)


def dump_full(ex, apps, addrs, sid_of, name):
    """the complete controller state in the driver's observation format: registers, all arrays, shared
    memory, unit modules, used set, registry, program counters"""
    from netqasm.lang.encoding import RegisterName
    out_apps = []
    for a in apps:
        if a not in ex._qubit_unit_modules:
            out_apps.append(None)
            continue
        regs, shm_regs, arrays, shm_arrays = [], [], [], []
        sm = ex._shared_memories.get(a)
        for b in range(4):
            g = ex._registers[a][RegisterName(b)]
            sg = sm._registers[RegisterName(b)] if sm is not None else None
            for i in range(16):
                regs.append(g._register.get(i))
                shm_regs.append(sg._register.get(i) if sg is not None else None)
        for ad in addrs:
            arr = ex._app_arrays[a]._arrays.get(ad)
            arrays.append(list(arr) if arr is not None else None)
            sarr = sm._arrays._arrays.get(ad) if sm is not None else None
            shm_arrays.append(list(sarr) if sarr is not None else None)
        out_apps.append({"regs": regs, "arrays": arrays, "shmRegs": shm_regs, "shmArrays": shm_arrays,
                         "unit": list(ex._qubit_unit_modules[a])})
    reg = sorted(k[1] for k, v in SharedMemoryManager._MEMORIES.items() if k[0] == name and v is not None)
    return {"apps": out_apps, "used": sorted(ex._used_physical_qubit_addresses), "registry": reg,
            "pcs": {sid: ex._program_counters.get(sid) for sid in sid_of if sid in ex._subroutines}}


class Replayer:
    """One scenario on one real executor, driven token by token. `steps`: list of dicts {tok, acts (model
    actions), obs (canonical real state) | raised, wait (for a wait instruction: did it block)}; tokens
    that are not enabled are skipped (not recorded)."""

    def __init__(self, sc, ex=None):
        self.sc = sc
        self.ex = ex if ex is not None else new_executor()
        for app, n in sc.apps.items():
            self.ex.init_new_application(app, n)
        self.init_acts = [{"a": "initapp", "app": app, "n": n} for app, n in sc.apps.items()]
        self.subs = [parse_text_subroutine(sp.text()) for sp in sc.subs]
        for sp, s in zip(sc.subs, self.subs):
            assert len(s.instructions) == len(sp.lines), "harness: text/instruction count mismatch"
        self.gens = {}        # sub index -> generator
        self.sid = {}         # sub index -> executor subroutine id
        self.pc = {}          # sub index -> index of the instruction the generator is about to run / sits in
        self.state = {}       # sub index -> "pre" | "wait" | "done" | "dead"
        self.current = {}     # app -> sub index that may not be pre-empted
        self.uid2idx = {}
        self.resp_by_uid = {r.uid: r for r in sc.resps}
        self.oracle = Oracle(sc)
        self.steps = []
        self.nstarted = 0
        self.delivered = 0
        if self.ex._pending_epr_responses or any(any(d.values()) for _, d in request_tables(self.ex)):
            self.oracle.bad("a new Executor instance starts with EPR bookkeeping state of another instance",
                            pending=len(self.ex._pending_epr_responses))
            self.oracle.foreign_reported = True
        self.snap = self.oracle.snapshot(self.ex)
        self.stopped = False
        # controller model (`Model/Controller.lean`): instruction-level programs + full-state comparison
        self.full = False
        self.cinit = [{"a": "init", "app": app, "n": n} for app, n in sc.apps.items()]
        self.cprogs = [[enc_instr(i) for i in s.instructions] for s in self.subs]
        self.addrs = sorted({a["addr"] for sp in sc.subs for _, a in sp.lines if "addr" in a} |
                            {a[k] for sp in sc.subs for _, a in sp.lines for k in ("q", "res") if a.get(k) is not None} |
                            set(range(12)))

    def step(self, tok):
        if self.stopped:
            return
        sc, ex = self.sc, self.ex
        gens, sid, pc, state, current = self.gens, self.sid, self.pc, self.state, self.current
        acts = []
        cacts = []
        waited = None
        rec = {"tok": list(tok)}
        raised = None
        try:
            if tok[0] == "s":
                i = tok[1]
                sp = sc.subs[i]
                if state.get(i) in ("done", "dead"):
                    return
                cur = current.get(sp.app)
                if cur is not None and cur != i and state.get(cur) == "pre":
                    return      # same application: switch only at waits
                current[sp.app] = i
                rejected = False
                if i not in gens:
                    gens[i] = ex.execute_subroutine(self.subs[i])
                    sid[i] = self.nstarted
                    self.nstarted += 1
                    pc[i] = 0
                    acts.append({"a": "startsub", "sub": sid[i], "app": sp.app})
                    cacts.append({"a": "spawn", "app": sp.app, "prog": self.cprogs[i]})
                    if not sp.lines:
                        acts.append({"a": "endsub", "sub": sid[i]})
                else:
                    act = dict(sp.lines[pc[i]][1])
                    if act["a"] == "rejected":
                        # fault injection: the network stack raises at its next put / get_purpose_id
                        ex.network_stack.fail_next = act["where"]
                        act = {"a": "rejected"}
                        rejected = True
                    if act["a"] == "nop" and sp.app not in ex._qubit_unit_modules:
                        # a `set` of a stopped application raises (KeyError on its register file); for the
                        # bookkeeping model: any instruction that needs the application
                        act = {"a": "wait", "kind": "single", "addr": 0, "lo": 0, "hi": 0}
                    if act["a"] != "nop":
                        act["sub"] = sid[i]
                    acts.append(act)
                    cacts.append({"a": "stackfault" if rejected else "tick", "i": sid[i]})
                try:
                    y = next(gens[i])
                    while y not in ("pre", "wait"):
                        # a yield point INSIDE an instruction (the reset hook of qfree): the instruction's
                        # effect is complete; resume until the executor's next own suspension point
                        y = next(gens[i])
                except StopIteration:
                    y = "done"
                except InjectedFault:
                    if not rejected:
                        raise
                    y = "dead"
                if rejected and y != "dead":
                    raise RuntimeError("harness: the injected network-stack fault did not surface")
                if y == "dead":
                    # the subroutine died inside the instruction; it stays registered (never cleared)
                    state[i] = "dead"
                    current[sp.app] = None
                elif y == "wait":
                    state[i] = "wait"
                    rec["wait"] = True
                else:
                    if acts[-1].get("a") == "wait":
                        rec["wait"] = False
                        a = acts[-1]
                        waited = (a["kind"], sp.app, a["addr"], a["lo"], a["hi"])
                    if acts[0]["a"] != "startsub":
                        pc[i] += 1
                    state[i] = "pre" if y == "pre" else "done"
                    if y == "done":
                        if acts[-1]["a"] != "endsub":
                            acts.append({"a": "endsub", "sub": sid[i]})
                        current[sp.app] = None
            elif tok[0] == "x":
                app = tok[1]
                if app not in ex._qubit_unit_modules:
                    return
                if not sc.malformed and any(sp.app == app and state.get(i) != "done"
                                            for i, sp in enumerate(sc.subs)):
                    return      # well-formed: an application is stopped after its subroutines have ended
                acts.append({"a": "stopapp", "app": app})
                cacts.append({"a": "stop", "app": app})
                out = ex.stop_application(app)
                if out is not None:
                    list(out)
            elif tok[0] == "d":
                r = sc.resps[tok[1]]
                if r.uid in self.uid2idx:
                    return
                self.uid2idx[r.uid] = self.delivered
                self.delivered += 1
                acts.append(r.action())
                cacts.append(r.action())
                ex._handle_epr_response(r.real())
            else:
                acts.append({"a": "poll"})
                cacts.append({"a": "poll"})
                ex._handle_pending_epr_responses()
        except Exception as e:  # the executor raised: the schedule stops here
            raised = type(e).__name__
        rec["acts"] = acts
        rec["cacts"] = cacts
        if self.full:
            rec["full"] = dump_full(ex, sorted(sc.apps), self.addrs, list(sid.values()), ex._name)
            rec["fin"] = {sid[i]: st for i, st in state.items() if i in sid}
        if raised is not None:
            rec["raised"] = raised
            self.steps.append(rec)
            self.stopped = True
            return
        rec["obs"] = canon_real(ex, self.uid2idx, self.oracle.ident2uid)
        for a in acts:
            if a.get("a") in ("create", "recv"):
                self.oracle.expected_issue.append((a["remote"], a["purpose"], a["a"] == "create"))
        self.snap = self.oracle.after(ex, self.snap, tok, self.resp_by_uid, waited)
        self.steps.append(rec)


def replay_real(sc, toks, executor_factory=new_executor):
    """Returns (init_acts, steps, oracle)."""
    rp = Replayer(sc, executor_factory())
    for tok in toks:
        rp.step(tok)
        if rp.stopped:
            break
    return rp.init_acts, rp.steps, rp.oracle


def replay_two(scs, toks):
    """Two executors (two nodes) in ONE process, their schedules interleaved: toks = [(node index, tok)].
    Returns the two Replayers."""
    SharedMemoryManager.reset_memories()
    rps = [Replayer(sc, new_executor(name="verif-node-%d" % k, node_id=NODE_ID, reset=False))
           for k, sc in enumerate(scs)]
    for k, tok in toks:
        rps[k].step(tuple(tok))
    return rps


def interleave(rng, toks_a, toks_b):
    out, a, b = [], list(toks_a), list(toks_b)
    while a or b:
        if a and (not b or rng.random() < 0.5):
            out.append((0, a.pop(0)))
        else:
            out.append((1, b.pop(0)))
    return out


def compare_with_model(driver_out, init_acts, steps):
    """driver_out = answer of `epr.run` on init_acts + all step actions. Returns None or a description
    of the first difference."""
    obs = driver_out["obs"]
    idx = len(init_acts) - 1
    for n, st in enumerate(steps):
        idx += len(st["acts"])
        if "raised" in st:
            if not driver_out["raised"] or len(obs) > idx:
                return {"step": n, "tok": st["tok"], "code": "raises " + st["raised"], "model": "no exception"}
            return None
        if idx >= len(obs):
            return {"step": n, "tok": st["tok"], "code": "no exception", "model": "raises"}
        if not st["acts"]:
            continue
        m = canon_model(obs[idx])
        if m != st["obs"]:
            diff = {k: (m[k], st["obs"][k]) for k in m if m[k] != st["obs"][k]}
            return {"step": n, "tok": st["tok"], "diff(model,code)": repr(diff)[:1500]}
        if "wait" in st:
            widx = idx - len(st["acts"]) + 1 + [a["a"] for a in st["acts"]].index("wait")
            w = obs[widx].get("w")
            if w is None or (not w) != st["wait"]:
                return {"step": n, "tok": st["tok"], "code": "wait blocks=%s" % st["wait"], "model": "passes=%s" % w}
    return None


def model_request(init_acts, steps):
    acts = list(init_acts)
    for st in steps:
        acts += st["acts"]
    return {"op": "epr.run", "okf": OK_FIELDS_K, "node": NODE_ID, "acts": acts}


# ====================================================================== C11: request / result transport

from netqasm.backend.messages import (InitNewAppMessage, MessageType, OpenEPRSocketMessage,  # noqa: E402
                                      StopAppMessage, SubroutineMessage, deserialize_host_msg)
from netqasm.lang.instr.flavour import VanillaFlavour  # noqa: E402
from netqasm.lang.parsing import deserialize as deserialize_subroutine  # noqa: E402
from netqasm.qlink_compat import (EPRRole, EPRType, LinkLayerCreate, RandomBasis, RequestType,  # noqa: E402
                                  TimeUnit, request_to_qlink_1_0)
from netqasm.sdk import build_epr as BE  # noqa: E402
from netqasm.sdk.connection import BaseNetQASMConnection, DebugConnection, DebugNetworkInfo  # noqa: E402
from netqasm.sdk.epr_socket import EPRSocket  # noqa: E402

import qlink_interface as qlink_1_0  # noqa: E402

NODE_NAME = "verif-node"
REMOTE_NAME = "verif-remote"
REMOTE2_NAME = "verif-remote2"
REMOTE_NAMES = {1: REMOTE_NAME, 2: REMOTE2_NAME}


class InProcConnection(BaseNetQASMConnection):
    """Host-side connection that decodes every serialized message and drives the executor in-process.
    While a subroutine sits in a wait, the scripted responses are handed to the executor."""

    def __init__(self, executor, responder, **kw):
        self._executor = executor
        self._responder = responder
        self.stuck = False
        super().__init__(app_name=NODE_NAME, node_name=executor._name, **kw)

    def _get_network_info(self):
        return DebugNetworkInfo

    def _commit_serialized_message(self, raw_msg, block=True, callback=None):
        msg = deserialize_host_msg(raw_msg)
        ex = self._executor
        if isinstance(msg, InitNewAppMessage):
            ex.init_new_application(app_id=msg.app_id, max_qubits=msg.max_qubits)
        elif isinstance(msg, OpenEPRSocketMessage):
            out = ex.setup_epr_socket(epr_socket_id=msg.epr_socket_id, remote_node_id=msg.remote_node_id,
                                      remote_epr_socket_id=msg.remote_epr_socket_id)
            list(out)
        elif isinstance(msg, SubroutineMessage):
            sub = deserialize_subroutine(msg.subroutine, flavour=getattr(self, "_flavour", None) or VanillaFlavour())
            idle = 0
            for y in ex.execute_subroutine(sub):
                if y == "wait":
                    if self._responder(ex):
                        idle = 0
                    else:
                        ex._handle_pending_epr_responses()
                        idle += 1
                        if idle > 3:
                            self.stuck = True
                            break
        elif isinstance(msg, StopAppMessage):
            out = ex.stop_application(app_id=msg.app_id)
            if out is not None:
                list(out)


def fresh_world():
    SharedMemoryManager.reset_memories()
    BaseNetQASMConnection._app_ids.clear()
    BaseNetQASMConnection._app_names.clear()
    DebugConnection.node_ids = {NODE_NAME: NODE_ID, REMOTE_NAME: 1, REMOTE2_NAME: 2}
    ex = SteppingExecutor(name=NODE_NAME)
    ex.network_stack = RecordingStack()
    return ex


TP = {"K": EPRType.K, "M": EPRType.M, "R": EPRType.R}


def gen_request_case(rng):
    """a random call of the EPRSocket create API (+ the matching parameter record for the model)"""
    tp = rng.choice(["K", "M", "R"])
    number = rng.choice([1, 1, 2, 3, rng.randint(1, 4)])
    c = {"tp": tp, "role": "create", "number": number, "socket": rng.randrange(4), "remote": rng.choice([1, 2]),
         "remote_socket": rng.randrange(4),
         "time_unit": rng.randrange(3), "max_time": rng.choice([0, 0, 1, 7, rng.randrange(1000)]),
         "rbl": None, "rbr": None, "rotL": [0, 0, 0], "rotR": [0, 0, 0], "basisL": None, "basisR": None,
         "api": rng.choice(["specific", "specific", "generic"])}
    if tp in ("M", "R"):
        how = rng.choice(["none", "rot", "basis", "random"])
        if how == "rot":
            c["rotL"] = [rng.randrange(32) for _ in range(3)]
        elif how == "basis":
            c["basisL"] = rng.randrange(6)
        elif how == "random":
            c["rbl"] = rng.randrange(4)
        if tp == "M":
            how = rng.choice(["none", "rot", "basis", "random"])
            if how == "rot":
                c["rotR"] = [rng.randrange(32) for _ in range(3)]
            elif how == "basis":
                c["basisR"] = rng.randrange(6)
            elif how == "random":
                c["rbr"] = rng.randrange(4)
    return c


def model_params(c):
    """what the API call means, as the parameter record of the Lean model (named bases resolved with the
    generated basis table by the caller)"""
    rotL = list(c["rotL"])
    rotR = list(c["rotR"])
    if c["basisL"] is not None:
        rotL = list(BASIS_ROT[c["basisL"]])
    if c["basisR"] is not None:
        rotR = list(BASIS_ROT[c["basisR"]])
    return {"tp": {"K": 0, "M": 1, "R": 2}[c["tp"]], "remote": c.get("remote", 1),
            "purpose": purpose_of(c.get("remote", 1), c["socket"]),
            "number": c["number"], "timeUnit": c["time_unit"], "maxTime": c["max_time"],
            "rbl": c["rbl"], "rbr": c["rbr"], "rotL": rotL, "rotR": rotR}


# EprMeasBasis member i -> rotation triple; independent of basis_to_rotation: the documented meaning
# (X: (0,24,0), Y: (8,0,0), Z: (0,0,0), MX: (0,8,0), MY: (24,0,0), MZ: (16,0,0))
BASIS_ROT = [(0, 24, 0), (8, 0, 0), (0, 0, 0), (0, 8, 0), (24, 0, 0), (16, 0, 0)]


def canon_request(req):
    out = []
    for f, v in zip(req._fields, req):
        if isinstance(v, RequestType):
            out.append([f, ["RequestType", v.value]])
        elif isinstance(v, RandomBasis):
            out.append([f, ["RandomBasis", v.value]])
        elif isinstance(v, bool) or not isinstance(v, int):
            out.append([f, [type(v).__name__, repr(v)]])
        else:
            out.append([f, ["int", v]])
    return out


BOUNDARY_VALUES = [0, 1, 2 ** 31 - 1, 2 ** 31, 2 ** 32 - 1, 2 ** 32, 5 * 10 ** 9, 2 ** 63 - 1]


def boundary(rng, small=1 << 20):
    """a response field value: value-range classes (around 2^31, 2^32, 5 s in ns, 2^63-1) or a small number"""
    from netqasm.runtime.settings import get_is_using_hardware
    if get_is_using_hardware():
        # with the process-wide hardware flag on, array cells are checked to fit 32 bits (OverflowError
        # otherwise, by design): stay inside
        return rng.choice([0, 1, 2 ** 31 - 1]) if rng.random() < 0.5 else rng.randrange(small)
    return rng.choice(BOUNDARY_VALUES) if rng.random() < 0.5 else rng.randrange(small)


def make_responses(c, rng, role):
    """scripted responses with arbitrary field values for the request of case c"""
    keep = c["tp"] == "K" or (c["tp"] == "R" and role == "recv")
    out = []
    for k in range(c["number"]):
        rem = c.get("remote", 1)
        r = RespSpec(k, "K" if keep else "M", rem, purpose_of(rem, c["socket"]), 1 if role == "recv" else 0,
                     50 + k, rng)
        r.seq = boundary(rng, 1 << 16)
        r.goodness = boundary(rng)
        r.gtime = boundary(rng)
        r.cid = boundary(rng, 1 << 16)
        # (floats are not legal here although qlink-interface types `goodness` as float: NetQASM arrays hold
        # integers and `Future.value` raises "future value 0.5 is not an int or None" — observation)
        r.form10 = rng.random() < 0.4
        r.bellenum = rng.random() < 0.5
        out.append(r)
    return out


def create_kwargs(c):
    kw = {}
    if c["tp"] in ("M", "R"):
        if c["basisL"] is not None:
            kw["basis_local"] = BE.EprMeasBasis(c["basisL"])
        elif c["rotL"] != [0, 0, 0]:
            kw["rotations_local"] = tuple(c["rotL"])
        if c["rbl"] is not None:
            kw["random_basis_local"] = RandomBasis(c["rbl"])
    if c["tp"] == "M":
        if c["basisR"] is not None:
            kw["basis_remote"] = BE.EprMeasBasis(c["basisR"])
        elif c["rotR"] != [0, 0, 0]:
            kw["rotations_remote"] = tuple(c["rotR"])
        if c["rbr"] is not None:
            kw["random_basis_remote"] = RandomBasis(c["rbr"])
    return kw


def do_create_call(sock, c):
    """one create call of the EPRSocket API as described by case `c` -> (qubits or None, handles or None)"""
    tu = TimeUnit(c["time_unit"])
    kw = create_kwargs(c)
    qubits = handles = None
    if c["api"] == "generic" and c["tp"] != "R" or (c["api"] == "generic" and c["rbl"] is None
                                                     and c["rotL"] == [0, 0, 0]):
        logging.disable(logging.CRITICAL)
        res = sock.create(number=c["number"], tp=TP[c["tp"]], time_unit=tu, max_time=c["max_time"], **kw)
        if c["tp"] == "K":
            qubits = res
        else:
            handles = res
    elif c["tp"] == "K":
        qubits, handles = sock.create_keep_with_info(number=c["number"], time_unit=tu, max_time=c["max_time"])
    elif c["tp"] == "M":
        handles = sock.create_measure(number=c["number"], time_unit=tu, max_time=c["max_time"], **kw)
    else:
        handles = sock.create_rsp(number=c["number"], time_unit=tu, max_time=c["max_time"], **kw)
    return qubits, handles


# ---- several requests in ONE subroutine, differing in exactly one argument

VARY = ["number", "time_unit", "max_time", "rotL", "rotR", "basisL", "basisR", "rbl", "rbr", "tp"]


def gen_pair_case(rng):
    """2-3 create calls without a flush in between: the second differs from the first in exactly one
    argument (each argument in turn), an optional third repeats the first."""
    c0 = gen_request_case(rng)
    c0["api"] = "specific"
    c0["number"] = rng.randint(1, 2)
    if rng.random() < 0.6:
        c0["max_time"] = rng.randint(1, 50)       # so that the time unit is transmitted
    c1 = dict(c0, rotL=list(c0["rotL"]), rotR=list(c0["rotR"]))
    applicable = ["number", "time_unit", "max_time", "tp"]
    if c0["tp"] in ("M", "R"):
        applicable += ["rotL", "basisL", "rbl"]
    if c0["tp"] == "M":
        applicable += ["rotR", "basisR", "rbr"]
    f = rng.choice(applicable)
    if f == "number":
        c1["number"] = 3 - c0["number"]
    elif f == "time_unit":
        c1["time_unit"] = (c0["time_unit"] + rng.choice([1, 2])) % 3
        c0["max_time"] = c1["max_time"] = max(1, c0["max_time"])
    elif f == "max_time":
        c1["max_time"] = c0["max_time"] + rng.randint(1, 9)
    elif f in ("rotL", "rotR"):
        c1["basisL" if f == "rotL" else "basisR"] = None
        c0["basisL" if f == "rotL" else "basisR"] = None
        c1[f] = [(x + rng.randint(1, 5)) % 32 for x in c0[f]]
        if c1[f] == [0, 0, 0]:
            c1[f] = [1, 2, 3]
    elif f in ("basisL", "basisR"):
        cur = c0[f]
        c1[f] = rng.choice([b for b in range(6) if b != cur])
    elif f in ("rbl", "rbr"):
        cur = c0[f]
        c1[f] = rng.choice([b for b in [None, 0, 1, 2, 3] if b != cur])
    elif f == "tp":
        c1["tp"] = {"K": "M", "M": "K", "R": "M"}[c0["tp"]]
        for k in ("rbl", "rbr", "basisL", "basisR"):
            c0[k] = c1[k] = None
        c0["rotL"] = c1["rotL"] = [0, 0, 0]
        c0["rotR"] = c1["rotR"] = [0, 0, 0]
    cases = [c0, c1]
    if rng.random() < 0.4:
        cases.append(dict(c0, rotL=list(c0["rotL"]), rotR=list(c0["rotR"])))
    if rng.random() < 0.3:
        cases.reverse()
    return {"cases": cases, "varied": f, "rseed": rng.randrange(1 << 30)}


def run_pair_case(pc):
    """-> {"raised", "stuck", "requests": canonical requests received by the stack, in order}"""
    import random as _random
    rrng = _random.Random(pc["rseed"])
    ex = fresh_world()
    cases = pc["cases"]
    todo = []
    for c in cases:
        todo += make_responses(c, rrng, "create")
    for k, r in enumerate(todo):
        r.phys = 50 + k

    def responder(ex_):
        if not todo:
            return False
        ex_._handle_epr_response(todo.pop(0).real())
        return True

    c0 = cases[0]
    sock = EPRSocket(REMOTE_NAMES[c0.get("remote", 1)], epr_socket_id=c0["socket"],
                     remote_epr_socket_id=c0["remote_socket"])
    conn = InProcConnection(ex, responder, epr_sockets=[sock], max_qubits=8)
    out = {"raised": None, "stuck": False, "requests": []}
    try:
        for c in cases:
            do_create_call(sock, c)
        conn.flush()
    except Exception as e:
        out["raised"] = "%s: %s" % (type(e).__name__, e)
        return out
    out["stuck"] = conn.stuck
    out["requests"] = [canon_request(r) for r in ex.network_stack.requests]
    return out


def run_sdk_case(c, rng, role="create"):
    """Runs the API call through SDK -> bytes -> executor -> recording stack, feeds scripted responses,
    returns what the stack received and what the host-side handles read."""
    ex = fresh_world()
    resps = make_responses(c, rng, role)
    todo = list(resps)

    def responder(ex_):
        if not todo:
            return False
        ex_._handle_epr_response(todo.pop(0).real())
        return True

    sock = EPRSocket(REMOTE_NAMES[c.get("remote", 1)], epr_socket_id=c["socket"],
                     remote_epr_socket_id=c["remote_socket"])
    conn = InProcConnection(ex, responder, epr_sockets=[sock], max_qubits=5)
    tu = TimeUnit(c["time_unit"])
    kw = {}
    if c["tp"] in ("M", "R"):
        if c["basisL"] is not None:
            kw["basis_local"] = BE.EprMeasBasis(c["basisL"])
        elif c["rotL"] != [0, 0, 0]:
            kw["rotations_local"] = tuple(c["rotL"])
        if c["rbl"] is not None:
            kw["random_basis_local"] = RandomBasis(c["rbl"])
    if c["tp"] == "M":
        if c["basisR"] is not None:
            kw["basis_remote"] = BE.EprMeasBasis(c["basisR"])
        elif c["rotR"] != [0, 0, 0]:
            kw["rotations_remote"] = tuple(c["rotR"])
        if c["rbr"] is not None:
            kw["random_basis_remote"] = RandomBasis(c["rbr"])
    handles = None
    qubits = None
    if role == "create":
        qubits, handles = do_create_call(sock, c)
    elif False:
        if c["api"] == "generic" and c["tp"] != "R" or (c["api"] == "generic" and c["rbl"] is None
                                                         and c["rotL"] == [0, 0, 0]):
            logging.disable(logging.CRITICAL)
            res = sock.create(number=c["number"], tp=TP[c["tp"]], time_unit=tu, max_time=c["max_time"], **kw)
            if c["tp"] == "K":
                qubits = res
            else:
                handles = res
        elif c["tp"] == "K":
            qubits, handles = sock.create_keep_with_info(number=c["number"], time_unit=tu,
                                                         max_time=c["max_time"])
        elif c["tp"] == "M":
            handles = sock.create_measure(number=c["number"], time_unit=tu, max_time=c["max_time"], **kw)
        else:
            handles = sock.create_rsp(number=c["number"], time_unit=tu, max_time=c["max_time"], **kw)
    else:
        if c["tp"] == "K":
            qubits, handles = sock.recv_keep_with_info(number=c["number"], expect_phi_plus=c.get("phi", True))
        elif c["tp"] == "M":
            handles = sock.recv_measure(number=c["number"], expect_phi_plus=c.get("phi", True))
        else:
            qubits, handles = sock.recv_rsp_with_info(number=c["number"], expect_phi_plus=c.get("phi", True))
    conn.flush()
    out = {"requests": list(ex.network_stack.requests), "stuck": conn.stuck, "resps": resps,
           "handles": [], "entinfo": []}
    if handles is not None and not conn.stuck:
        for i, h in enumerate(handles):
            if isinstance(h, BE.EprKeepResult):
                for attr in ("qubit_id", "remote_node_id", "generation_duration", "raw_bell_state"):
                    out["handles"].append([i, attr, getattr(h, attr).value])
                out["handles"].append([i, "bell_state", h.bell_state.value])
            else:
                for attr in ("raw_measurement_outcome", "remote_node_id", "generation_duration",
                             "raw_bell_state"):
                    out["handles"].append([i, attr, getattr(h, attr).value])
                out["handles"].append([i, "measurement_basis_local", list(h.measurement_basis_local)])
                out["handles"].append([i, "measurement_basis_remote", list(h.measurement_basis_remote)])
    if qubits is not None and not conn.stuck:
        for i, q in enumerate(qubits):
            info = q.entanglement_info
            for f, v in zip(info._fields, info):
                out["entinfo"].append([i, f, v.value])
    out["kind"] = "keep" if (handles and isinstance(handles[0], BE.EprKeepResult)) else "measure"
    return out


def qlink_accepts(req):
    """the oracle of C11's request half: the link-layer conversion accepts the request. For the R type
    (`request_to_qlink_1_0` has no branch for it) the same conversion as for M is applied by hand."""
    if req.type == RequestType.R:
        qlink_1_0.ReqRemoteStatePrep(
            remote_node_id=req.remote_node_id, minimum_fidelity=req.minimum_fidelity, time_unit=req.time_unit,
            max_time=req.max_time, purpose_id=req.purpose_id, number=req.number, priority=req.priority,
            atomic=req.atomic, consecutive=req.consecutive,
            random_basis_local=qlink_1_0.RandomBasis(req.random_basis_local.value),
            x_rotation_angle_local_1=req.rotation_X_local1, y_rotation_angle_local=req.rotation_Y_local,
            x_rotation_angle_local_2=req.rotation_X_local2)
        qlink_1_0.RandomBasis(req.random_basis_remote.value)
        return "R"
    q = request_to_qlink_1_0(req)
    return type(q).__name__


# ---------------------------------------------------------------------- C11: multi-call host programs
# Several create/recv calls over two sockets; the link layer may be AHEAD of the application (responses
# arrive before the matching instruction ran) and interleaves the two sockets arbitrarily, keeping the
# order within one (remote node, socket, role).


def gen_program_case(rng):
    ncalls = rng.randint(2, 4)
    keytype = {}
    calls = []
    kbudget = 6
    for j in range(ncalls):
        socket = rng.randrange(2)
        role = rng.choice(["recv", "recv", "create"])
        ty = keytype.setdefault((socket, role), rng.choice(["K", "M", "M"]))
        number = rng.randint(1, 2)
        if ty == "K":
            if kbudget < number:
                continue
            kbudget -= number
        calls.append({"socket": socket, "role": role, "tp": ty, "number": number,
                      "flush": rng.random() < 0.8, "phi": rng.random() < 0.5})
    if not calls:
        calls.append({"socket": 0, "role": "recv", "tp": "M", "number": 1, "flush": True, "phi": True})
    calls[-1]["flush"] = True
    # responses per key, in request order; global order = random merge
    perkey = {}
    nresp = 0
    for c in calls:
        for _ in range(c["number"]):
            perkey.setdefault("%d/%s" % (c["socket"], c["role"]), []).append(nresp)   # socket = index
            nresp += 1
    queues = {k: list(v) for k, v in perkey.items()}
    order = []
    while any(queues.values()):
        k = rng.choice([k for k, v in queues.items() if v])
        order.append(queues[k].pop(0))
    # the two EPR sockets: [remote node, local socket id]; equal local ids towards two remote nodes included
    socks = rng.choice([[[1, 0], [2, 0]], [[1, 0], [2, 0]], [[1, 1], [2, 1]], [[1, 0], [2, 1]], [[1, 0], [1, 1]]])
    return {"calls": calls, "socks": socks, "order": order, "early": rng.choice([0, 0, 1, 2, 3]),
            "batches": [rng.choice([1, 1, 2, 3]) for _ in range(nresp + 2)], "rseed": rng.randrange(1 << 30)}


def run_program_case(pc):
    """Returns {"stuck", "raised", "checks": [(what, got, want)]} — every handle of every completed call
    against the response the link layer generated for that pair (the i-th of its queue)."""
    import random as _random
    rrng = _random.Random(pc["rseed"])
    ex = fresh_world()
    calls = pc["calls"]
    sockdefs = pc.get("socks", [[1, 0], [1, 1]])
    # build the responses: index -> RespSpec, in per-key request order
    resps = {}
    idx = 0
    for c in calls:
        keep = c["tp"] == "K"
        for _ in range(c["number"]):
            rem, lid = sockdefs[c["socket"]]
            r = RespSpec(idx, "K" if keep else "M", rem, purpose_of(rem, lid), 1 if c["role"] == "recv" else 0,
                         60 + idx, rrng)
            r.seq = boundary(rrng, 1 << 16)
            r.goodness = boundary(rrng)
            r.gtime = boundary(rrng)
            r.form10 = rrng.random() < 0.4
            r.bellenum = rrng.random() < 0.5
            resps[idx] = r
            idx += 1
    todo = list(pc["order"])
    batches = list(pc["batches"])

    def deliver(n):
        k = 0
        while todo and k < n:
            ex._handle_epr_response(resps[todo.pop(0)].real())
            k += 1
        return k > 0

    def responder(ex_):
        return deliver(batches.pop(0) if batches else 1)

    socks = [EPRSocket(REMOTE_NAMES[rem], epr_socket_id=lid, remote_epr_socket_id=lid) for rem, lid in sockdefs]
    conn = InProcConnection(ex, responder, epr_sockets=socks, max_qubits=8)
    out = {"stuck": False, "raised": None, "checks": [], "completed": 0}
    results = []
    try:
        deliver(pc["early"])        # the remote side is ahead: nothing has been requested yet
        first = 0
        for c in calls:
            s = socks[c["socket"]]
            qubits = handles = None
            if c["role"] == "create":
                if c["tp"] == "K":
                    qubits, handles = s.create_keep_with_info(number=c["number"])
                else:
                    handles = s.create_measure(number=c["number"])
            else:
                if c["tp"] == "K":
                    qubits, handles = s.recv_keep_with_info(number=c["number"], expect_phi_plus=c["phi"])
                else:
                    handles = s.recv_measure(number=c["number"], expect_phi_plus=c["phi"])
            results.append((c, first, qubits, handles))
            first += c["number"]
            if c["flush"]:
                conn.flush()
                if conn.stuck:
                    out["stuck"] = True
                    break
    except Exception as e:  # noqa
        out["raised"] = "%s: %s" % (type(e).__name__, e)
        return out
    if out["stuck"]:
        return out
    # request side: socket and remote node ids are exactly the ones the network stack receives
    want_reqs = [(sockdefs[c["socket"]][0], purpose_of(*sockdefs[c["socket"]]), c["number"])
                 for c in calls if c["role"] == "create"]
    got_reqs = [(r.remote_node_id, r.purpose_id, r.number) for r in ex.network_stack.requests]
    out["checks"].append(("(remote node, purpose, pairs) of the requests the stack received", got_reqs, want_reqs))
    for c, first, qubits, handles in results:
        out["completed"] += 1
        for i in range(c["number"]):
            want = resps[first + i].native()     # responses were numbered in per-key request order

            def fld(name):
                v = getattr(want, name)
                return v.value if hasattr(v, "value") else v
            h = handles[i]
            if isinstance(h, BE.EprKeepResult):
                spec = {"qubit_id": "logical_qubit_id", "remote_node_id": "remote_node_id",
                        "generation_duration": "goodness", "raw_bell_state": "bell_state"}
            else:
                spec = {"raw_measurement_outcome": "measurement_outcome", "remote_node_id": "remote_node_id",
                        "generation_duration": "goodness", "raw_bell_state": "bell_state"}
            for attr, f in spec.items():
                out["checks"].append(("call %s pair %d %s" % (c, i, attr), getattr(h, attr).value, fld(f)))
            if qubits is not None:
                info = qubits[i].entanglement_info
                for f, v in zip(info._fields, info):
                    out["checks"].append(("call %s qubit %d entanglement_info.%s" % (c, i, f), v.value, fld(f)))
    return out


# ---------------------------------------------------------------------- C11: handles over hardware configs
# generic / NV hardware (with and without the NV transpiler) x sequential / all-at-once x 1..3 pairs x
# both roles; which returned Qubit holds which pair is ESTABLISHED from the run: every response carries a
# distinct physical qubit id, the executor subclass follows that qubit through `mov` (NV: communication
# qubit -> memory qubit) and records the order of measurements (sequential requests).

from netqasm.lang.instr.flavour import NVFlavour  # noqa: E402
from netqasm.sdk.build_types import GenericHardwareConfig, NVHardwareConfig  # noqa: E402
from netqasm.sdk.transpile import NVSubroutineTranspiler  # noqa: E402

PHYS0 = 60     # physical id of pair k is PHYS0 + k


class TokenExecutor(SteppingExecutor):
    """follows the content of physical qubits: `content[p]` = the physical id the state in p came from"""

    def __init__(self, *a, **k):
        super().__init__(*a, **k)
        self.content = {}
        self.measured = []

    def _phys(self, subroutine_id, v):
        return self._get_unit_module(subroutine_id)[v]

    def _do_two_qubit_instr(self, instr, subroutine_id, address1, address2):
        if instr.mnemonic == "mov":
            src, dst = self._phys(subroutine_id, address1), self._phys(subroutine_id, address2)
            self.content[dst] = self.content.pop(src, src)
        return None

    def _do_meas(self, subroutine_id, q_address):
        p = self._phys(subroutine_id, q_address)
        self.measured.append(self.content.get(p, p))
        return 0


def gen_hw_case(rng):
    hw = rng.choice(["generic", "nv", "nv", "nv+transpiler"])
    number = rng.randint(1, 3)
    return {"swap": rng.random() < 0.5,
            "hw": hw, "role": rng.choice(["create", "recv"]), "tp": rng.choice(["K", "K", "K", "M"]),
            "number": number, "sequential": rng.random() < 0.35, "phi": rng.random() < 0.5,
            "nq": rng.randint(max(2, number), 5), "rseed": rng.randrange(1 << 30)}


def all_hw_cases():
    out = []
    for hw in ("generic", "nv", "nv+transpiler"):
        for role in ("create", "recv"):
            for number in (1, 2, 3):
                for seq in (False, True):
                    out.append({"hw": hw, "role": role, "tp": "K", "number": number, "sequential": seq,
                                "phi": False, "nq": 4, "rseed": 7 * number + (1 if seq else 0),
                                "swap": (number + (1 if seq else 0)) % 2 == 0})
                out.append({"hw": hw, "role": role, "tp": "M", "number": number, "sequential": False,
                            "phi": True, "nq": 4, "rseed": 11 * number, "swap": number % 2 == 1})
    return out


def run_hw_case(c, pair_of_handle=None):
    """Returns {"stuck","raised","checks":[(what, got, want)],"pair_of_handle":[...],"layout":[(i, vid,
    slice)]}. `pair_of_handle` (from a run of the same case without the transpiler) is used when the
    qubit cannot be followed (the transpiler expands `mov` into gates)."""
    import random as _random
    rrng = _random.Random(c["rseed"])
    SharedMemoryManager.reset_memories()
    BaseNetQASMConnection._app_ids.clear()
    BaseNetQASMConnection._app_names.clear()
    # node placement: the local node is 0 and the remote 1 — or (`swap`) the local node is 1 and the remote
    # party sits on node id 0 (a falsy id)
    local_id, remote_id = (1, 0) if c.get("swap") else (NODE_ID, 1)
    DebugConnection.node_ids = {NODE_NAME: local_id, REMOTE_NAME: remote_id, REMOTE2_NAME: 2}
    ex = TokenExecutor(name=NODE_NAME)
    ex._verif_node_id = local_id
    ex.network_stack = RecordingStack()
    keep = c["tp"] == "K"
    resps = []
    for k in range(c["number"]):
        r = RespSpec(k, "K" if keep else "M", remote_id, purpose_of(remote_id, 0),
                     1 if c["role"] == "recv" else 0, PHYS0 + k, rrng)
        r.form10 = rrng.random() < 0.3
        r.seq = k
        r.goodness = boundary(rrng)
        r.gtime = boundary(rrng)
        r.cid = boundary(rrng, 1 << 16)
        resps.append(r)
    todo = list(resps)

    def responder(ex_):
        if not todo:
            return False
        ex_._handle_epr_response(todo.pop(0).real())
        return True

    nv = c["hw"] != "generic"
    transp = c["hw"] == "nv+transpiler"
    hwc = NVHardwareConfig(c["nq"]) if nv else GenericHardwareConfig(c["nq"])
    sock = EPRSocket(REMOTE_NAME, epr_socket_id=0, remote_epr_socket_id=0)
    conn = InProcConnection(ex, responder, epr_sockets=[sock], max_qubits=c["nq"], hardware_config=hwc,
                            compiler=NVSubroutineTranspiler if transp else None)
    conn._flavour = NVFlavour() if transp else VanillaFlavour()
    out = {"stuck": False, "raised": None, "checks": [], "pair_of_handle": None, "layout": []}
    seq = c["sequential"] and keep

    def post(conn_, q, pair):
        q.measure()

    try:
        kw = {"number": c["number"]}
        if seq:
            kw.update(sequential=True, post_routine=post)
        qubits = handles = None
        if c["role"] == "create":
            if keep:
                qubits, handles = sock.create_keep_with_info(**kw)
            else:
                handles = sock.create_measure(number=c["number"])
        else:
            if keep:
                qubits, handles = sock.recv_keep_with_info(expect_phi_plus=c["phi"], **kw)
            else:
                handles = sock.recv_measure(number=c["number"], expect_phi_plus=c["phi"])
        conn.flush()
    except Exception as e:
        out["raised"] = "%s: %s" % (type(e).__name__, e)
        return out
    if conn.stuck:
        out["stuck"] = True
        return out

    def fld(r, name):
        v = getattr(r.native(), name)
        return v.value if hasattr(v, "value") else v

    spec = ({"qubit_id": "logical_qubit_id", "remote_node_id": "remote_node_id",
             "generation_duration": "goodness", "raw_bell_state": "bell_state"} if keep else
            {"raw_measurement_outcome": "measurement_outcome", "remote_node_id": "remote_node_id",
             "generation_duration": "goodness", "raw_bell_state": "bell_state"})
    for i, h in enumerate(handles):
        for attr, f in spec.items():
            out["checks"].append(("%s of pair %d" % (attr, i), getattr(h, attr).value, fld(resps[i], f)))
    if qubits is not None:
        # which pair does returned qubit i hold?
        if transp:
            poh = pair_of_handle
        elif seq:
            poh = [m - PHYS0 for m in ex.measured]      # i-th iteration measured the qubit of pair ...
        else:
            um = ex._qubit_unit_modules[conn.app_id]
            poh = []
            for q in qubits:
                p = um[q.qubit_id]
                poh.append(None if p is None else ex.content.get(p, p) - PHYS0)
        out["pair_of_handle"] = poh
        if poh is None or len(poh) != len(qubits) or sorted(x for x in poh if x is not None) != \
                list(range(len(qubits))):
            out["checks"].append(("every returned qubit holds exactly one pair", poh, list(range(len(qubits)))))
        else:
            for i, q in enumerate(qubits):
                info = q.entanglement_info
                # accessor: the NAME of the node the qubit is entangled with
                try:
                    name = q.remote_entangled_node
                except Exception as e:
                    name = "raises %s" % type(e).__name__
                out["checks"].append(("remote_entangled_node of returned qubit %d (remote node id %d)"
                                      % (i, remote_id), name, REMOTE_NAME))
                out["layout"].append([i, q.qubit_id, info.type._index // OK_FIELDS_K])
                for f, v in zip(info._fields, info):
                    out["checks"].append(("entanglement_info.%s of returned qubit %d (virtual %d, holds pair %d)"
                                          % (f, i, q.qubit_id, poh[i]), v.value, fld(resps[poh[i]], f)))
    return out


# ---------------------------------------------------------------------- C11: API objects reused across connections
# ONE EPRSocket object used on several connections, successively or alive at the same time, while the
# network places the remote party on different nodes (DebugConnection.node_ids) for each connection.


def gen_reuse_case(rng):
    nph = rng.choice([2, 2, 3])
    phases = []
    for k in range(nph):
        phases.append({"remote": rng.choice([1, 2]), "tp": rng.choice(["M", "K"]), "role": rng.choice(["create", "create", "recv"]),
                       "number": rng.randint(1, 2), "close_before_next": rng.random() < 0.5})
    if all(p["remote"] == phases[0]["remote"] for p in phases):
        phases[-1]["remote"] = 3 - phases[0]["remote"]
    return {"socket": rng.randrange(3), "phases": phases, "rseed": rng.randrange(1 << 30)}


def run_reuse_case(c):
    import random as _random
    rrng = _random.Random(c["rseed"])
    ex = fresh_world()
    sock = EPRSocket(REMOTE_NAME, epr_socket_id=c["socket"], remote_epr_socket_id=c["socket"])
    out = {"raised": None, "stuck": False, "checks": []}
    uid = 0
    try:
        for k, ph in enumerate(c["phases"]):
            # the network of this connection places the remote application on node ph["remote"]
            DebugConnection.node_ids = {NODE_NAME: NODE_ID, REMOTE_NAME: ph["remote"], REMOTE2_NAME: 3 - ph["remote"]}
            keep = ph["tp"] == "K"
            resps = []
            for _ in range(ph["number"]):
                r = RespSpec(uid, "K" if keep else "M", ph["remote"], purpose_of(ph["remote"], c["socket"]),
                             1 if ph["role"] == "recv" else 0, 70 + uid, rrng)
                r.goodness = boundary(rrng)
                r.form10 = rrng.random() < 0.3
                resps.append(r)
                uid += 1
            todo = list(resps)

            def responder(ex_, todo=todo):
                if not todo:
                    return False
                ex_._handle_epr_response(todo.pop(0).real())
                return True

            nreq = len(ex.network_stack.requests)
            conn = InProcConnection(ex, responder, epr_sockets=[sock], max_qubits=4)
            if ph["role"] == "create":
                if keep:
                    qubits, handles = sock.create_keep_with_info(number=ph["number"])
                else:
                    handles = sock.create_measure(number=ph["number"])
            else:
                if keep:
                    qubits, handles = sock.recv_keep_with_info(number=ph["number"], expect_phi_plus=False)
                else:
                    handles = sock.recv_measure(number=ph["number"], expect_phi_plus=False)
            out["checks"].append(("connection %d: remote node id of the socket" % k, sock.remote_node_id, ph["remote"]))
            conn.flush()
            if conn.stuck:
                out["stuck"] = True
                out["checks"].append(("connection %d: request completes" % k, "never", "completes"))
                return out
            if ph["role"] == "create":
                got = [(r.remote_node_id, r.purpose_id, r.number) for r in ex.network_stack.requests[nreq:]]
                out["checks"].append(("connection %d: (remote node, purpose, pairs) received by the stack" % k, got,
                                      [(ph["remote"], purpose_of(ph["remote"], c["socket"]), ph["number"])]))
            for i, h in enumerate(handles):
                want = resps[i].native()
                out["checks"].append(("connection %d: generation_duration of pair %d" % (k, i),
                                      h.generation_duration.value, want.goodness))
                out["checks"].append(("connection %d: remote_node_id of pair %d" % (k, i),
                                      h.remote_node_id.value, want.remote_node_id))
            if ph["close_before_next"]:
                if keep:
                    for q in qubits:
                        q.free()
                conn.close()
    except Exception as e:
        out["raised"] = "%s: %s" % (type(e).__name__, e)
    return out



# ---------------------------------------------------------------------- controller model (full state)


def ctl_request(rp):
    acts = list(rp.cinit)
    for st in rp.steps:
        acts += st["cacts"]
    return {"op": "ctl.run", "okf": OK_FIELDS_K, "node": rp.ex.node_id, "pmul": 1000, "apps": sorted(rp.sc.apps),
            "addrs": rp.addrs, "acts": acts}


def compare_with_ctl(out, rp):
    """full-state comparison with the controller model after every action: registers, all arrays, shared
    memory, unit modules, used set, registry, program counters / outcomes of the subroutines, queues,
    pending list. Returns None or the first difference."""
    obs = out["obs"]
    idx = len(rp.cinit) - 1
    for n, st in enumerate(rp.steps):
        idx += len(st["cacts"])
        raised = st.get("raised")
        if raised and st["tok"][0] != "s":
            if not out["raised"] or len(obs) > idx:
                return {"step": n, "tok": st["tok"], "code": "raises " + raised, "model": "no exception"}
            return None
        if idx >= len(obs):
            return {"step": n, "tok": st["tok"], "code": "no exception", "model": "raises"}
        if not st["cacts"]:
            continue
        o = obs[idx]
        full = st.get("full")
        if full is None:
            continue
        if raised:
            # an instruction raised: the model records the fault (class and line) in the subroutine
            fins = [sb["fin"] for sb in o["subs"] if isinstance(sb["fin"], dict)]
            if not any(f["cls"] == raised for f in fins):
                return {"step": n, "tok": st["tok"], "code": "instruction raises " + raised,
                        "model": "subroutine outcomes %s" % [sb["fin"] for sb in o["subs"]]}
        m_apps = o["apps"]
        if m_apps != full["apps"]:
            for a, (x, y) in enumerate(zip(m_apps, full["apps"])):
                if x != y:
                    keys = [k for k in (x or {}) if (y or {}).get(k) != x.get(k)] if x and y else ["app"]
                    return {"step": n, "tok": st["tok"], "what": "application %d differs in %s" % (a, keys),
                            "model": {k: x[k] for k in keys} if x and y else x,
                            "code": {k: y[k] for k in keys} if x and y else y}
        for k in ("used", "registry"):
            if o[k] != full[k]:
                return {"step": n, "tok": st["tok"], "what": k, "model": o[k], "code": full[k]}
        for sidx, pc in full["pcs"].items():
            msb = o["subs"][sidx]
            if pc is not None and msb["fin"] != "halted" and msb["pc"] != pc:
                return {"step": n, "tok": st["tok"], "what": "program counter of subroutine %d" % sidx,
                        "model": msb["pc"], "code": pc}
        for sidx, stt in st["fin"].items():
            mf = o["subs"][sidx]["fin"]
            want = "halted" if stt == "done" else ("fault" if stt == "dead" else None)
            got = "halted" if mf == "halted" else ("fault" if isinstance(mf, dict) else None)
            if not raised and want != got:
                return {"step": n, "tok": st["tok"], "what": "outcome of subroutine %d" % sidx, "model": mf,
                        "code": stt}
        cm = canon_model({"apps": [], "used": [], "queues": o["queues"], "pending": o["pending"], "subs": []})
        if cm["queues"] != st.get("obs", {}).get("queues", cm["queues"]) or \
                cm["pending"] != st.get("obs", {}).get("pending", cm["pending"]):
            return {"step": n, "tok": st["tok"], "what": "queues / pending",
                    "model": repr([cm["queues"], cm["pending"]])[:1200],
                    "code": repr([st["obs"]["queues"], st["obs"]["pending"]])[:1200]}
        if raised:
            return None
    return None


# ---------------------------------------------------------------------- C11: every optional argument of every entry point
# The argument vocabulary is enumerated from the SIGNATURES of the EPRSocket entry points (inspect), so a
# new parameter is noticed; every optional argument is exercised for every request type.

import inspect  # noqa: E402

CREATE_ENTRY = {"create_keep": "K", "create_keep_with_info": "K", "create_measure": "M", "create_rsp": "R"}
RECV_ENTRY = {"recv_keep": "K", "recv_keep_with_info": "K", "recv_measure": "M", "recv_rsp": "R",
              "recv_rsp_with_info": "R"}
KNOWN_ARGS = {"number", "post_routine", "sequential", "time_unit", "max_time", "min_fidelity_all_at_end",
              "max_tries", "basis_local", "basis_remote", "rotations_local", "rotations_remote",
              "random_basis_local", "random_basis_remote", "expect_phi_plus"}


def entry_params(name):
    return [p for p in inspect.signature(getattr(EPRSocket, name)).parameters if p != "self"]


def unknown_entry_args():
    """parameters of the entry points that the request vocabulary of this harness does not know"""
    return sorted({(n, p) for n in list(CREATE_ENTRY) + list(RECV_ENTRY) for p in entry_params(n)
                   if p not in KNOWN_ARGS})


def gen_api_case(rng):
    name = rng.choice(list(CREATE_ENTRY) * 2 + list(RECV_ENTRY))
    params = entry_params(name)
    a = {"number": rng.randint(1, 2)}
    for p in params:
        if p == "number" or rng.random() < 0.45:
            continue
        if p == "sequential":
            a[p] = True
        elif p == "time_unit":
            a[p] = rng.randrange(3)
        elif p == "max_time":
            a[p] = rng.choice([0, 3, 40])
        elif p == "min_fidelity_all_at_end":
            a[p] = rng.choice([70, 90])
        elif p in ("basis_local", "basis_remote"):
            a[p] = rng.randrange(6)
        elif p in ("rotations_local", "rotations_remote"):
            a[p] = [rng.randrange(32) for _ in range(3)]
        elif p in ("random_basis_local", "random_basis_remote"):
            a[p] = rng.randrange(4)
        elif p == "expect_phi_plus":
            a[p] = rng.random() < 0.5
    if "sequential" in a:
        if "post_routine" in params:
            a["post_routine"] = True
        else:
            del a["sequential"]
    if "min_fidelity_all_at_end" in a:
        if "max_tries" in params:
            a["max_tries"] = rng.randint(1, 3)
        else:
            del a["min_fidelity_all_at_end"]      # (the *_with_info forms take no max_tries: the builder asserts)
    return {"entry": name, "args": a, "socket": rng.randrange(3), "rseed": rng.randrange(1 << 30)}


def api_expected(ac):
    """the parameter record of the Lean model for a create entry-point call"""
    a = ac["args"]
    tp = CREATE_ENTRY[ac["entry"]]
    rotL = list(BASIS_ROT[a["basis_local"]]) if a.get("basis_local") is not None else list(a.get("rotations_local", [0, 0, 0]))
    rotR = list(BASIS_ROT[a["basis_remote"]]) if a.get("basis_remote") is not None else list(a.get("rotations_remote", [0, 0, 0]))
    return {"tp": {"K": 0, "M": 1, "R": 2}[tp], "remote": 1, "purpose": purpose_of(1, ac["socket"]),
            "number": a["number"], "timeUnit": a.get("time_unit", 0), "maxTime": a.get("max_time", 0),
            "rbl": a.get("random_basis_local"), "rbr": a.get("random_basis_remote"), "rotL": rotL, "rotR": rotR}


def run_api_case(ac):
    import random as _random
    rrng = _random.Random(ac["rseed"])
    ex = fresh_world()
    a = ac["args"]
    creating = ac["entry"] in CREATE_ENTRY
    tp = (CREATE_ENTRY if creating else RECV_ENTRY)[ac["entry"]]
    keep = tp == "K" or (tp == "R" and not creating)
    made = [0]

    def responder(ex_):
        # the link layer answers every request it saw (a retry loop may put several), pair by pair
        k = made[0]
        if creating and k >= a["number"] * max(1, len(ex_.network_stack.requests)):
            return False
        if not creating and k >= a["number"] * 3:
            return False
        r = RespSpec(k, "K" if keep else "M", 1, purpose_of(1, ac["socket"]), 0 if creating else 1, 80 + k, rrng)
        r.goodness = 0       # generation duration 0: a min-fidelity loop is satisfied at once
        r.seq = k
        made[0] += 1
        ex_._handle_epr_response(r.real())
        return True

    sock = EPRSocket(REMOTE_NAME, epr_socket_id=ac["socket"], remote_epr_socket_id=ac["socket"])
    conn = InProcConnection(ex, responder, epr_sockets=[sock], max_qubits=6)
    kw = {}
    for k, v in a.items():
        if k == "time_unit":
            kw[k] = TimeUnit(v)
        elif k in ("basis_local", "basis_remote"):
            kw[k] = BE.EprMeasBasis(v)
        elif k in ("rotations_local", "rotations_remote"):
            kw[k] = tuple(v)
        elif k in ("random_basis_local", "random_basis_remote"):
            kw[k] = RandomBasis(v)
        elif k == "post_routine":
            kw[k] = (lambda conn_, q, pair: q.measure())
        else:
            kw[k] = v
    out = {"raised": None, "stuck": False, "requests": []}
    try:
        getattr(sock, ac["entry"])(**kw)
        conn.flush()
    except Exception as e:
        out["raised"] = "%s: %s" % (type(e).__name__, e)
        return out
    out["stuck"] = conn.stuck
    out["requests"] = [canon_request(r) for r in ex.network_stack.requests]
    return out
