"""Real-code side of C07: drive the real `NVSubroutineTranspiler` on single vanilla gates,
read the emitted NV instruction sequence, and evaluate unitaries numerically with an
INDEPENDENT operator semantics (closed-form matrices written here, numpy only).

Conventions: qubit index 0 = most significant bit (numpy kron order); an instruction list is
in time order (first instruction is applied first)."""
import cmath
import math

import numpy as np

from vlib import common

ONE_QUBIT = ["x", "y", "z", "h", "k", "s", "t"]
ROTS = ["rot_x", "rot_y", "rot_z"]
TWO_QUBIT = ["cnot", "cphase"]

# mnemonic -> constructor name of `NQ.GName`
GNAME = {"x": "x", "y": "y", "z": "z", "h": "h", "k": "k", "s": "s", "t": "t",
         "rot_x": "rotX", "rot_y": "rotY", "rot_z": "rotZ", "crot_x": "crotX", "crot_y": "crotY",
         "cnot": "cnot", "cphase": "cphase"}


def _mods():
    common.use_repo()
    from netqasm.lang.instr import core, nv, vanilla
    from netqasm.lang.operand import Immediate, Register
    from netqasm.lang.encoding import RegisterName
    from netqasm.lang.subroutine import Subroutine
    from netqasm.sdk.transpile import NVSubroutineTranspiler
    from netqasm.runtime import settings
    return dict(core=core, nv=nv, vanilla=vanilla, Immediate=Immediate, Register=Register,
                RegisterName=RegisterName, Subroutine=Subroutine, T=NVSubroutineTranspiler,
                settings=settings)


_M = None


def M():
    global _M
    if _M is None:
        _M = _mods()
    return _M


def qreg(i):
    m = M()
    return m["Register"](m["RegisterName"].Q, i)


VANILLA_CLS = {"x": "GateXInstruction", "y": "GateYInstruction", "z": "GateZInstruction",
               "h": "GateHInstruction", "k": "GateKInstruction", "s": "GateSInstruction",
               "t": "GateTInstruction", "rot_x": "RotXInstruction", "rot_y": "RotYInstruction",
               "rot_z": "RotZInstruction", "cnot": "CnotInstruction", "cphase": "CphaseInstruction",
               "mov": "MovInstruction"}


def vanilla_instr(mn, regs, n=None, d=None):
    m = M()
    cls = getattr(m["vanilla"], VANILLA_CLS[mn])
    if mn in ROTS:
        return cls(reg=qreg(regs[0]), imm0=m["Immediate"](n), imm1=m["Immediate"](d))
    if len(regs) == 1:
        return cls(reg=qreg(regs[0]))
    return cls(reg0=qreg(regs[0]), reg1=qreg(regs[1]))


def transpile(instrs, debug=False, hardware=False):
    """Run the real transpiler on a list of instruction objects; returns the new instruction list
    (or raises what the transpiler raises)."""
    m = M()
    sub = m["Subroutine"](instructions=list(instrs), arguments=[], netqasm_version=(0, 10), app_id=0)
    old = m["settings"].get_is_using_hardware()
    m["settings"].set_is_using_hardware(hardware)
    try:
        out = m["T"](sub, debug=debug).transpile()
    finally:
        m["settings"].set_is_using_hardware(old)
    return list(out.instructions)


def cyc_mul(x, y):
    """product in Z[x]/(x^4+1) on coefficient lists"""
    r = [0, 0, 0, 0]
    for i in range(4):
        for j in range(4):
            k = i + j
            if k < 4:
                r[k] += x[i] * y[j]
            else:
                r[k - 4] -= x[i] * y[j]
    return r


def cyc_equiv_up_to_scalar(A, B):
    """A, B: operators as lists of columns of Z[zeta_8] entries (4 ints each): A = (a/b) B, a, b != 0,
    decided exactly by cross-multiplication (same definition as `equivUpToScalar` of Model/Gates)"""
    fa = [e for col in A for e in col]
    fb = [e for col in B for e in col]
    if len(fa) != len(fb) or [len(c) for c in A] != [len(c) for c in B]:
        return False
    piv = next((k for k, e in enumerate(fb) if any(e)), None)
    if piv is None or not any(fa[piv]):
        return False
    a, b = fa[piv], fb[piv]
    return all(cyc_mul(x, b) == cyc_mul(y, a) for x, y in zip(fa, fb))


def set_instr(reg, val):
    m = M()
    return m["core"].SetInstruction(reg=qreg(reg), imm=m["Immediate"](val))


def gate_program(mn, ids, n=None, d=None, known=True):
    """`set Q_i id_i` for every operand, then the gate on Q0 (, Q1)."""
    prog = []
    if known:
        for r, v in enumerate(ids):
            prog.append(set_instr(r, v))
    prog.append(vanilla_instr(mn, list(range(len(ids))), n, d))
    return prog


class Unexpected(Exception):
    pass


def read_sequence(instrs, init_regs=None):
    """Interpret a transpiled instruction list: follow `set Qk v`, return the quantum
    instructions as (mnemonic, [virtual ids], n, d). Anything that is neither a `set` on a Q
    register, a debug marker, nor an NV gate raises."""
    m = M()
    nv, core = m["nv"], m["core"]
    from netqasm.lang.instr import DebugInstruction
    regs = dict(init_regs or {})
    out = []
    for ins in instrs:
        if isinstance(ins, DebugInstruction):
            continue
        if isinstance(ins, core.SetInstruction):
            if ins.reg.name != m["RegisterName"].Q:
                raise Unexpected(f"set on non-Q register in gate expansion: {ins}")
            regs[ins.reg.index] = ins.imm.value
            continue
        if type(ins).__module__ != nv.__name__:
            raise Unexpected(f"non-NV instruction survives transpilation: {ins!r}")
        mn = ins.mnemonic
        if mn not in GNAME:
            raise Unexpected(f"unknown NV mnemonic {mn}")
        if isinstance(ins, core.RotationInstruction):
            out.append((mn, [regs[ins.reg.index]], ins.angle_num.value, ins.angle_denom.value))
        elif isinstance(ins, core.ControlledRotationInstruction):
            out.append((mn, [regs[ins.reg0.index], regs[ins.reg1.index]],
                        ins.angle_num.value, ins.angle_denom.value))
        elif isinstance(ins, core.SingleQubitInstruction):
            out.append((mn, [regs[ins.reg.index]], 0, 0))
        else:
            raise Unexpected(f"unexpected instruction {ins!r}")
    return out


def quantum_instrs(instrs):
    """the real instruction objects (for their published matrices), with resolved virtual ids"""
    m = M()
    core = m["core"]
    from netqasm.lang.instr import DebugInstruction
    regs = {}
    out = []
    for ins in instrs:
        if isinstance(ins, DebugInstruction):
            continue
        if isinstance(ins, core.SetInstruction):
            regs[ins.reg.index] = ins.imm.value
            continue
        if isinstance(ins, (core.RotationInstruction, core.SingleQubitInstruction)):
            out.append((ins, [regs[ins.reg.index]]))
        elif isinstance(ins, (core.ControlledRotationInstruction, core.TwoQubitInstruction)):
            out.append((ins, [regs[ins.reg0.index], regs[ins.reg1.index]]))
    return out


def expand(mn, ids, n=None, d=None, debug=False, hardware=False, known=True):
    """(mnemonic, ids) -> emitted NV sequence over virtual ids"""
    prog = gate_program(mn, ids, n, d, known=known)
    out = transpile(prog, debug=debug, hardware=hardware)
    init = None if known else {}
    if not known:
        # register values unknown to the transpiler; the machine still has them
        init = {r: v for r, v in enumerate(ids)}
    return read_sequence(out, init)


def roles_of(ids):
    """virtual id -> role index: electron (0) -> 0, carbons -> 1, 2 in operand order"""
    roles = {0: 0}
    nxt = 1
    for v in ids:
        if v not in roles:
            roles[v] = nxt
            nxt += 1
    return roles


def to_roles(seq, ids):
    roles = roles_of(ids)
    return [(mn, [roles[q] for q in qs], n, d) for mn, qs, n, d in seq]


# ------------------------------------------------------------------ independent numerics

I2 = np.eye(2, dtype=complex)
SX = np.array([[0, 1], [1, 0]], dtype=complex)
SY = np.array([[0, -1j], [1j, 0]], dtype=complex)
SZ = np.array([[1, 0], [0, -1]], dtype=complex)
FIXED = {"x": SX, "y": SY, "z": SZ, "h": (SX + SZ) / math.sqrt(2), "k": (SY + SZ) / math.sqrt(2),
         "s": np.array([[1, 0], [0, 1j]], dtype=complex),
         "t": np.array([[1, 0], [0, cmath.exp(1j * math.pi / 4)]], dtype=complex)}
AXIS = {"x": SX, "y": SY, "z": SZ}


def rot(axis, theta):
    """exp(-i theta/2 sigma) in closed form"""
    return math.cos(theta / 2) * I2 - 1j * math.sin(theta / 2) * AXIS[axis]


def angle(n, d):
    return n * math.pi / 2 ** d


def embed1(m2, q, nq):
    out = np.eye(1, dtype=complex)
    for i in range(nq):
        out = np.kron(out, m2 if i == q else I2)
    return out


def embed_ctrl(m0, m1, c, t, nq):
    p0 = np.array([[1, 0], [0, 0]], dtype=complex)
    p1 = np.array([[0, 0], [0, 1]], dtype=complex)
    a = np.eye(1, dtype=complex)
    b = np.eye(1, dtype=complex)
    for i in range(nq):
        a = np.kron(a, p0 if i == c else (m0 if i == t else I2))
        b = np.kron(b, p1 if i == c else (m1 if i == t else I2))
    return a + b


def gate_matrix(mn, qs, n, d, nq):
    """independent semantics of one instruction given by mnemonic"""
    if mn in FIXED:
        return embed1(FIXED[mn], qs[0], nq)
    if mn in ROTS:
        return embed1(rot(mn[-1], angle(n, d)), qs[0], nq)
    if mn in ("crot_x", "crot_y"):
        th = angle(n, d)
        return embed_ctrl(rot(mn[-1], th), rot(mn[-1], -th), qs[0], qs[1], nq)
    if mn == "cnot":
        return embed_ctrl(I2, SX, qs[0], qs[1], nq)
    if mn == "cphase":
        return embed_ctrl(I2, SZ, qs[0], qs[1], nq)
    raise ValueError(mn)


def seq_unitary(seq, nq):
    u = np.eye(2 ** nq, dtype=complex)
    for mn, qs, n, d in seq:
        u = gate_matrix(mn, qs, n, d, nq) @ u
    return u


def published_unitary(qinstrs, roles, nq):
    """unitary of a sequence built from the REAL objects' published matrices
    (`to_matrix()`; 4x4 with the control as the first factor)"""
    u = np.eye(2 ** nq, dtype=complex)
    for ins, ids in qinstrs:
        mat = np.array(ins.to_matrix(), dtype=complex)
        qs = [roles[v] for v in ids]
        if len(qs) == 1:
            g = embed1(mat, qs[0], nq)
        else:
            g = embed2(mat, qs[0], qs[1], nq)
        u = g @ u
    return u


def embed2(m4, a, b, nq):
    """4x4 matrix on (a, b) (a = first tensor factor) embedded in nq qubits"""
    dim = 2 ** nq
    out = np.zeros((dim, dim), dtype=complex)
    pa, pb = nq - 1 - a, nq - 1 - b
    for j in range(dim):
        ja, jb = (j >> pa) & 1, (j >> pb) & 1
        rest = j & ~(1 << pa) & ~(1 << pb)
        for ia in range(2):
            for ib in range(2):
                i = rest | (ia << pa) | (ib << pb)
                out[i, j] += m4[2 * ia + ib, 2 * ja + jb]
    return out


def phase_distance(u, v):
    """min over global phases of the max entry difference; inf if shapes differ"""
    if u.shape != v.shape:
        return float("inf")
    idx = np.unravel_index(np.argmax(np.abs(v)), v.shape)
    if abs(u[idx]) < 1e-9:
        return float(np.max(np.abs(u - v)) + 1.0)
    ph = (u[idx] / v[idx])
    ph = ph / abs(ph)
    return float(np.max(np.abs(u - ph * v)))


def first_bad_input(u, v):
    """a basis input state on which u and v differ by more than a phase (for replays)"""
    for j in range(u.shape[1]):
        a, b = u[:, j], v[:, j]
        if abs(abs(np.vdot(a, b)) - 1) > 1e-9:
            return j
    # differs only by relative phases between columns: take a superposition
    return -1


def cyc_to_complex(c):
    """[a, b, c, d] -> a + b z + c z^2 + d z^3, z = exp(i pi/4)"""
    z = cmath.exp(1j * math.pi / 4)
    return c[0] + c[1] * z + c[2] * z * z + c[3] * z ** 3
