"""Real-code side of the C08 streams: JSON adapters, the real NV transpiler, program generators
(direct and through the real SDK), and the model-free oracle (numpy state-vector executor built on
the real base `Executor`, vanilla semantics for the original, NV semantics for the transpiled)."""
import copy
import logging

import numpy as np

from vlib import common

common.use_repo()
from netqasm.backend.executor import Executor  # noqa: E402
from netqasm.lang import operand as op  # noqa: E402
from netqasm.lang.encoding import RegisterName  # noqa: E402
from netqasm.lang.instr import core, nv, vanilla  # noqa: E402
from netqasm.lang.instr import flavour as fl  # noqa: E402
from netqasm.lang.instr.base import DebugInstruction  # noqa: E402
from netqasm.lang.parsing.binary import Deserializer  # noqa: E402
from netqasm.lang.subroutine import Subroutine  # noqa: E402
from netqasm.runtime import settings  # noqa: E402
from netqasm.sdk.shared_memory import SharedMemoryManager  # noqa: E402
from netqasm.sdk.transpile import NVSubroutineTranspiler  # noqa: E402

from harness import codec as HC  # noqa: E402

logging.getLogger().setLevel(logging.CRITICAL)
DEBUG_PREFIX = "base.DebugInstruction:"
R, C, Q, M = 0, 1, 2, 3
VANILLA_CLASSES = set(fl.CORE_INSTRUCTIONS) | set(fl.VanillaFlavour().instrs)
NV_CLASSES = set(fl.CORE_INSTRUCTIONS) | set(fl.NVFlavour().instrs)


# ---------------------------------------------------------------- JSON adapters

def instr_to_json(i):
    if isinstance(i, DebugInstruction):
        return {"c": DEBUG_PREFIX + i.text, "o": []}
    return HC.instr_to_json(i)


def instr_from_json(j):
    if j["c"].startswith(DEBUG_PREFIX):
        return DebugInstruction(text=j["c"][len(DEBUG_PREFIX):])
    return HC.instr_from_json(j)


def ins(c, *ops):
    return {"c": c, "o": list(ops)}


def reg(b, i):
    return {"r": [b, i]}


def imm(v):
    return {"i": v}


def show(js):
    return [str(instr_from_json(j)) for j in js]


# ---------------------------------------------------------------- the real transpiler

def real_transpile(js, debug=False, hw=False):
    """Runs the real pass on fresh objects. {"ok": [...], "ser": [...]} or {"err": class name}."""
    instrs = [instr_from_json(j) for j in js]
    sub = Subroutine(instructions=instrs, app_id=0)
    prev = settings.get_is_using_hardware()
    settings.set_is_using_hardware(hw)
    try:
        out = NVSubroutineTranspiler(sub, debug=debug).transpile()
        res = [instr_to_json(i) for i in out.instructions]
        ser = [instr_to_json(i) for i in out.instructions if not isinstance(i, DebugInstruction)]
        wire = None
        try:
            raw = bytes(out)
            back = Deserializer(fl.NVFlavour()).deserialize_subroutine(raw)
            wire = [instr_to_json(i) for i in back.instructions]
        except Exception:
            wire = None  # operands outside their binary field etc. (C16's business)
        return {"ok": res, "ser": ser, "wire": wire}
    except Exception as e:
        return {"err": type(e).__name__}
    finally:
        settings.set_is_using_hardware(prev)


# ---------------------------------------------------------------- state-vector executor (oracle)

class StepBound(Exception):
    pass


class SVExecutor(Executor):
    """The real base Executor with the documented quantum hooks overridden: a numpy state vector
    indexed by *virtual* qubit address, every gate applied through the instruction's own
    `to_matrix()`, scripted measurement outcomes."""

    def __init__(self, nq, script, state, allowed, max_steps=4000):
        super().__init__(name="sv")
        self.nq = nq
        self.state = np.array(state, dtype=complex).reshape([2] * nq)
        self.script = list(script)
        self.meas_k = 0
        self.allowed = allowed
        self.steps = 0
        self.max_steps = max_steps
        self.trace = []

    @property
    def node_id(self):
        return 0

    def _execute_command(self, subroutine_id, command):
        self.steps += 1
        if self.steps > self.max_steps:
            raise StepBound("step bound")
        if type(command) not in self.allowed:
            raise TypeError(f"instruction class {type(command).__name__} is not in this flavour")
        yield from super()._execute_command(subroutine_id, command)

    def _chk(self, a):
        if not (isinstance(a, int) and 0 <= a < self.nq):
            raise IndexError(f"virtual qubit {a}")

    def _apply1(self, m, a):
        self._chk(a)
        psi = np.tensordot(np.asarray(m, dtype=complex), self.state, axes=([1], [a]))
        self.state = np.moveaxis(psi, 0, a)

    def _apply2(self, m, a, b):
        self._chk(a)
        self._chk(b)
        if a == b:
            raise ValueError("two-qubit gate on one qubit")
        m = np.asarray(m, dtype=complex).reshape(2, 2, 2, 2)
        psi = np.tensordot(m, self.state, axes=([2, 3], [a, b]))
        self.state = np.moveaxis(psi, [0, 1], [a, b])

    def _project(self, a, want):
        """Project qubit a on `want` if that has probability > 1e-6, else on the other value."""
        self._chk(a)
        idx = [slice(None)] * self.nq
        probs = []
        for v in (0, 1):
            idx[a] = v
            probs.append(float(np.sum(np.abs(self.state[tuple(idx)]) ** 2)))
        out = want if probs[want] > 1e-6 else 1 - want
        idx[a] = 1 - out
        self.state[tuple(idx)] = 0
        self.state = self.state / np.sqrt(probs[out])
        return out

    def _do_single_qubit_instr(self, instr, subroutine_id, address):
        if isinstance(instr, core.InitInstruction):
            out = self._project(address, 0)
            if out == 1:
                self._apply1(np.array([[0, 1], [1, 0]]), address)
            return None
        self._apply1(instr.to_matrix(), address)
        return None

    def _do_single_qubit_rotation(self, instr, subroutine_id, address, angle):
        self._apply1(instr.to_matrix(), address)
        return None

    def _do_controlled_qubit_rotation(self, instr, subroutine_id, address1, address2, angle):
        # NV hardware: the only controlled rotations are those controlled by the electron (virtual id 0);
        # every decomposition of the pass is built on that
        if address1 != 0:
            raise ValueError("controlled rotation whose control is not the electron")
        self._apply2(instr.to_matrix(), address1, address2)
        return None

    def _do_two_qubit_instr(self, instr, subroutine_id, address1, address2):
        self._apply2(instr.to_matrix(), address1, address2)
        return None

    def _free_physical_qubit(self, subroutine_id, address):
        # a freed qubit has no state any more: reset it (deterministically, same rule in both runs)
        # so that the comparison of the final state is over the live qubits
        if isinstance(address, int) and 0 <= address < self.nq:
            if self._project(address, 0) == 1:
                self._apply1(np.array([[0, 1], [1, 0]]), address)
        yield from super()._free_physical_qubit(subroutine_id, address)

    def _do_meas(self, subroutine_id, q_address):
        want = self.script[self.meas_k % len(self.script)] if self.script else 0
        self.meas_k += 1
        out = self._project(q_address, want)
        self.trace.append(out)
        return out


def snapshot(ex, skip_q=True):
    """Classical memory of app 0: registers (R, C, M; Q optional), arrays, shared memory."""
    regs = {}
    for name, grp in ex._registers[0].items():
        if skip_q and name == RegisterName.Q:
            continue
        for i, v in grp._register.items():
            if v is not None:
                regs[f"{name.name}{i}"] = v
    arrays = {str(a): list(v) for a, v in ex._app_arrays[0]._arrays.items()}
    shm = ex._shared_memories.get(0)
    sregs, sarr = {}, {}
    if shm is not None:
        for name, grp in shm._registers.items():
            for i, v in grp._register.items():
                if v is not None:
                    sregs[f"{name.name}{i}"] = v
        sarr = {str(a): list(v) for a, v in shm._arrays._arrays.items()}
    return {"regs": regs, "arrays": arrays, "shm_regs": sregs, "shm_arrays": sarr}


def run_subroutines(subs_js, nq, script, state, allowed, max_steps=4000):
    """Run subroutines (lists of instruction JSON) one after the other on a fresh executor."""
    SharedMemoryManager.reset_memories()
    ex = SVExecutor(nq, script, state, allowed, max_steps)
    ex.init_new_application(app_id=0, max_qubits=nq)
    err = None
    try:
        for js in subs_js:
            sub = Subroutine(instructions=[instr_from_json(j) for j in js], app_id=0)
            list(ex.execute_subroutine(sub))
    except Exception as e:
        err = type(e).__name__
    snap = snapshot(ex)
    return {"err": err, "mem": snap, "state": ex.state.reshape(-1).copy(), "meas": list(ex.trace),
            "steps": ex.steps}


def states_equal(a, b, tol=1e-7):
    """equal up to a global phase"""
    ov = np.vdot(a, b)
    return abs(abs(ov) - 1.0) < tol and abs(np.linalg.norm(a) - 1) < tol and abs(np.linalg.norm(b) - 1) < tol


def random_state(rng, nq):
    v = np.array([complex(rng.gauss(0, 1), rng.gauss(0, 1)) for _ in range(2 ** nq)])
    return v / np.linalg.norm(v)


def has_pad(orig_js, ser_js):
    """the padding `set C15 1337` was appended (model-free: the last instruction is that `set`
    and some branch of the original targets the end)"""
    n = len(orig_js)
    tgt_end = False
    for j in orig_js:
        c = HC.class_by_name(j["c"])
        if issubclass(c, (core.JmpInstruction, core.BranchUnaryInstruction, core.BranchBinaryInstruction)):
            if j["o"][-1].get("i") == n:
                tgt_end = True
    return tgt_end and len(ser_js) > 0 and ser_js[-1] == ins("core.SetInstruction", reg(C, 15), imm(1337))


def _top_regs(j):
    return {tuple(o["r"]) for o in j["o"] if "r" in o}


def _is_gate_json(j):
    c = HC.class_by_name(j["c"])
    return issubclass(c, (core.SingleQubitInstruction, core.RotationInstruction, core.TwoQubitInstruction))


def static_scratch_check(js):
    """Model-free static oracle: the register the pass borrows for the electron (the `set Qk 0` it
    emits in front of `# begin SWAP`; found in a debug=True transpilation, where the marker makes the
    emitted `set` unmistakable) must not be mentioned by the source program at or before that gate -
    whatever kind of instruction mentioned it (set, load, add, meas, qalloc ...). Returns None or a
    description."""
    t = real_transpile(js, debug=True)
    if "err" in t:
        return None
    out = t["ok"]
    nongate_pos = [k for k, j in enumerate(js) if not _is_gate_json(j)]
    copied = 0
    for k, j in enumerate(out):
        if j["c"].startswith(DEBUG_PREFIX) or j["c"].startswith("nv."):
            continue
        is_scratch = (j["c"] == "core.SetInstruction" and k + 1 < len(out)
                      and out[k + 1]["c"] == DEBUG_PREFIX + "begin SWAP")
        if not is_scratch:
            copied += 1
            continue
        # source instructions that certainly precede (or are) the gate being expanded: everything up to
        # the first gate after the `copied`-th non-gate instruction
        if copied > len(nongate_pos):
            return None  # not the chunk structure this oracle can read; the executed comparison judges it
        start = nongate_pos[copied - 1] + 1 if copied > 0 else 0
        end = start
        while end < len(js) and not _is_gate_json(js[end]):
            end += 1
        prefix = js[:min(end + 1, len(js))]
        r = tuple(j["o"][0]["r"])
        named = set()
        for x in prefix:
            named |= _top_regs(x)
        if r in named:
            return {"what": "the register borrowed for the electron is already mentioned by the program",
                    "stage": "static-scratch", "register": list(r), "output_index": k,
                    "source_prefix_length": len(prefix)}
    return None


def _is_branch_json(j):
    c = HC.class_by_name(j["c"])
    return issubclass(c, (core.JmpInstruction, core.BranchUnaryInstruction, core.BranchBinaryInstruction))


def static_end_check(js, ser):
    """Model-free static oracle: a branch of the source to the label just past the end must, in the
    transpiled program, land on an instruction that NO instruction follows (branches keep their order,
    so the k-th branch of the output is the k-th branch of the source)."""
    src = [j for j in js if _is_branch_json(j)]
    out = [j for j in ser if _is_branch_json(j)]
    if len(src) != len(out):
        return {"what": "the transpiled program has a different number of branches", "stage": "static-end"}
    for k, (a, b) in enumerate(zip(src, out)):
        if a["o"][-1].get("i") == len(js) and b["o"][-1].get("i") != len(ser) - 1:
            return {"what": "a branch to the end label lands on an instruction that is followed by more "
                            "instructions of the program", "stage": "static-end", "branch": k,
                    "target": b["o"][-1].get("i"), "length": len(ser), "tail": show(ser[-4:])}
    return None


def oracle_compare(subs_js, nq, script, state, debug=False, given=None):
    """Original (vanilla semantics) vs transpiled-and-serialised (NV semantics).
    Returns None when they agree, else a description. Programs on which the ORIGINAL faults are
    skipped (returns "skip"). `given`: transpilation results to judge instead of transpiling here
    (one {"ok","ser"} / {"err"} dict per subroutine)."""
    a = run_subroutines(subs_js, nq, script, state, VANILLA_CLASSES)
    if a["err"] is not None:
        return "skip"
    tsubs = []
    padded = False
    for k_sub, js in enumerate(subs_js):
        t = real_transpile(js, debug=debug) if given is None else given[k_sub]
        if "err" in t:
            return {"what": "transpiler raises " + t["err"] + " on a program that runs", "stage": "transpile"}
        tsubs.append(t["ser"])
        padded = padded or has_pad(js, t["ser"])
        # every branch of the serialised program must have an instruction to land on
        for k, j in enumerate(t["ser"]):
            c = HC.class_by_name(j["c"])
            if issubclass(c, (core.JmpInstruction, core.BranchUnaryInstruction, core.BranchBinaryInstruction)):
                tgt = j["o"][-1].get("i")
                if not (isinstance(tgt, int) and 0 <= tgt < len(t["ser"])):
                    return {"what": "a branch of the transpiled program targets no instruction", "stage": "static",
                            "at": k, "target": tgt, "length": len(t["ser"])}
    b = run_subroutines(tsubs, nq, script, state, NV_CLASSES, max_steps=40 * (a["steps"] + 10))
    if b["err"] is not None:
        return {"what": "transpiled program faults: " + b["err"], "stage": "run"}
    ma, mb = copy.deepcopy(a["mem"]), copy.deepcopy(b["mem"])
    if padded:
        for m in (ma, mb):
            m["regs"].pop("C15", None)
    if ma != mb:
        return {"what": "final classical memory differs", "stage": "memory",
                "orig": ma, "nv": mb}
    if a["meas"] != b["meas"]:
        return {"what": "measurement record differs", "stage": "meas", "orig": a["meas"], "nv": b["meas"]}
    if not states_equal(a["state"], b["state"]):
        return {"what": "final quantum state differs (beyond a global phase)", "stage": "state",
                "overlap": float(abs(np.vdot(a["state"], b["state"])))}
    # static oracles: they read the output's structure; an output they cannot read is not their finding
    for js, ser in zip(subs_js, tsubs):
        try:
            sc = static_end_check(js, ser)
        except Exception:
            sc = None
        if sc is not None:
            return sc
    if given is None:
        for js in subs_js:
            try:
                sc = static_scratch_check(js)
            except Exception:
                sc = None
            if sc is not None:
                return sc
    return None


# ---------------------------------------------------------------- transpiler-object histories

HELPERS = ["swap", "get_unused_register", "get_reg_value", "_map_single_gate", "_handle_single_qubit_gate",
           "_map_cnot_electron_carbon", "_map_cnot_carbon_electron", "_map_cnot_carbon_carbon",
           "_map_cphase_electron_carbon", "_map_cphase_carbon_carbon", "_move_electron_carbon",
           "_move_carbon_electron"]


def _result_of(sub):
    res = [instr_to_json(i) for i in sub.instructions]
    return {"ok": res, "ser": [j for j in res if not j["c"].startswith(DEBUG_PREFIX)]}


class _Timeout(Exception):
    pass


def _on_alarm(signum, frame):
    raise _Timeout()


def _call(tr, hw):
    """one transpile() call under a hardware setting: result dict. A call that does not return within
    half a second (a pass iterating over a list it is appending to) is reported as "Timeout"."""
    import signal
    prev = settings.get_is_using_hardware()
    settings.set_is_using_hardware(hw)
    old = signal.signal(signal.SIGALRM, _on_alarm)
    signal.setitimer(signal.ITIMER_REAL, 0.5)
    try:
        return _result_of(tr.transpile())
    except _Timeout:
        return {"err": "Timeout"}
    except Exception as e:
        return {"err": type(e).__name__}
    finally:
        signal.setitimer(signal.ITIMER_REAL, 0)
        signal.signal(signal.SIGALRM, old)
        settings.set_is_using_hardware(prev)


def _call_helper(tr, name, rng):
    """call one public / semi-public helper of the transpiler object on throw-away operands"""
    ra = op.Register(RegisterName.Q, rng.randrange(16))
    rb = op.Register(RegisterName.Q, rng.randrange(16))
    try:
        if name == "swap":
            tr.swap(None, ra, rb)
        elif name == "get_unused_register":
            tr.get_unused_register()
        elif name == "get_reg_value":
            tr.get_reg_value(ra)
        elif name in ("_map_single_gate", "_handle_single_qubit_gate"):
            getattr(tr, name)(vanilla.GateHInstruction(reg=ra))
        elif "cnot" in name:
            getattr(tr, name)(vanilla.CnotInstruction(reg0=ra, reg1=rb))
        elif "cphase" in name:
            getattr(tr, name)(vanilla.CphaseInstruction(reg0=ra, reg1=rb))
        else:
            getattr(tr, name)(vanilla.MovInstruction(reg0=ra, reg1=rb))
    except Exception:
        pass  # e.g. KeyError of get_reg_value: the call itself is all that matters


def run_history(kind, js, debug, rng, fail_pos=None, names=None):
    """Use ONE NVSubroutineTranspiler object (or one Subroutine object) in a way other than "fresh object,
    one call". Returns {"final": result of the last call, "ref": the vanilla program a fresh object would
    be given for that call, "ref_hw": hardware setting of that call, "desc": the history}.
    kinds: "helpers"   random helper calls, then transpile()
           "retry-hw"  transpile() under the hardware setting (raises at `fail_pos`), then again without
           "retry-fix" transpile() raises at `fail_pos`; the caller replaces that instruction; again
           "twice"     transpile() twice on the same object (second input = first output)
           "two-objs"  the same Subroutine object given to two transpiler objects one after the other"""
    instrs = [instr_from_json(j) for j in js]
    sub = Subroutine(instructions=instrs, app_id=0)
    tr = NVSubroutineTranspiler(sub, debug=debug)
    if kind == "helpers":
        names = names or [rng.choice(HELPERS) for _ in range(rng.randrange(1, 5))]
        for n in names:
            _call_helper(tr, n, rng)
        return {"final": _call(tr, False), "ref": js, "ref_hw": False, "desc": {"helpers": names}}
    if kind == "retry-hw":
        first = _call(tr, True)
        return {"final": _call(tr, False), "ref": js, "ref_hw": False,
                "desc": {"first": first.get("err", "ok"), "fail_pos": fail_pos}}
    if kind == "retry-fix":
        first = _call(tr, False)
        fix = ins("core.SetInstruction", reg(R, 5), imm(1))
        sub.instructions[fail_pos] = instr_from_json(fix)
        ref = list(js)
        ref[fail_pos] = fix
        return {"final": _call(tr, False), "ref": ref, "ref_hw": False,
                "desc": {"first": first.get("err", "ok"), "fail_pos": fail_pos}}
    if kind == "twice":
        first = _call(tr, False)
        if "err" in first:
            return None
        return {"final": _call(tr, False), "ref": first["ok"], "ref_hw": False, "desc": {"first": "ok"},
                "first": first}
    if kind == "two-objs":
        first = _call(tr, False)
        if "err" in first:
            return None
        tr2 = NVSubroutineTranspiler(sub, debug=debug)
        return {"final": _call(tr2, False), "ref": first["ok"], "ref_hw": False, "desc": {"first": "ok"},
                "first": first}
    raise ValueError(kind)


def fresh_result(js, debug, hw):
    """what a fresh object gives on a fresh copy (the reference every history is compared with); inputs
    that already contain NV instructions are allowed (second call of "twice")"""
    instrs = [instr_from_json(j) for j in js]
    tr = NVSubroutineTranspiler(Subroutine(instructions=instrs, app_id=0), debug=debug)
    return _call(tr, hw)


# ---------------------------------------------------------------- generators

GATE1 = ["vanilla.GateXInstruction", "vanilla.GateYInstruction", "vanilla.GateZInstruction",
         "vanilla.GateHInstruction", "vanilla.GateKInstruction", "vanilla.GateSInstruction",
         "vanilla.GateTInstruction"]
ROTS = ["vanilla.RotXInstruction", "vanilla.RotYInstruction", "vanilla.RotZInstruction"]
BR2 = ["core.BeqInstruction", "core.BneInstruction", "core.BltInstruction", "core.BgeInstruction"]
BR1 = ["core.BezInstruction", "core.BnzInstruction"]


class ProgGen:
    """Structured, executable vanilla programs: loops, conditionals and end labels around gates;
    qubit registers written by `set` (SDK shape) or, when `loads` is on, by `load` from an array."""

    def __init__(self, rng, nq, loads=False, exclude=(), sdk_regs=False, movs=True):
        self.rng = rng
        self.nq = nq
        self.loads = loads
        self.exclude = set(exclude)
        self.sdk_regs = sdk_regs
        self.movs = movs and nq >= 2
        self.items = []  # ("L", name) | instruction json with {"lab": name} operands
        self.nlab = 0
        self.features = set()
        self.load_sites = []
        self.in_realloc = False
        self.ret_block = False
        self.end_label = None

    # -- emission
    def emit(self, c, *ops):
        self.items.append(ins(c, *ops))

    def new_label(self):
        self.nlab += 1
        return "L%d" % self.nlab

    def place(self, name):
        self.items.append(("L", name))

    def resolve(self):
        pos, k = {}, 0
        for it in self.items:
            if isinstance(it, tuple):
                pos[it[1]] = k
            else:
                k += 1
        out = []
        for it in self.items:
            if isinstance(it, tuple):
                continue
            out.append({"c": it["c"], "o": [imm(pos[o["lab"]]) if "lab" in o else o for o in it["o"]]})
        return out

    # -- pieces
    def qreg(self, avoid=()):
        pool = [0, 1] if self.sdk_regs else [0, 1, 2, 3, 3, 7, 15]
        while True:
            r = self.rng.choice(pool)
            if r not in avoid:
                return r

    def put_id(self, qr, qid):
        """make Q register qr hold qubit id qid"""
        if self.loads and self.rng.random() < 0.5:
            self.emit("core.SetInstruction", reg(R, 7), imm(qid))
            self.load_sites.append((len([i for i in self.items if not isinstance(i, tuple)]), qr, qid))
            self.emit("core.LoadInstruction", reg(Q, qr), {"e": [0, R, 7]})
            self.features.add("load-Q")
        else:
            self.emit("core.SetInstruction", reg(Q, qr), imm(qid))

    def prologue(self):
        for k in range(6):
            self.emit("core.SetInstruction", reg(R, k), imm(self.rng.choice([0, 1, 2, 3, 5])))
        self.emit("core.SetInstruction", reg(R, 14), imm(1))
        for k in range(3):
            self.emit("core.SetInstruction", reg(M, k), imm(0))
        if self.loads:
            self.emit("core.SetInstruction", reg(R, 6), imm(self.nq))
            self.emit("core.ArrayInstruction", reg(R, 6), {"a": 0})
            for k in range(self.nq):
                self.emit("core.SetInstruction", reg(R, 6), imm(k))
                self.emit("core.StoreInstruction", reg(R, 6), {"e": [0, R, 6]})

    def stmt(self, depth):
        rng = self.rng
        kinds = ["g1", "g1", "rot", "g2", "g2", "meas", "cls", "cls"]
        if self.movs:
            kinds.append("mov")
        if depth > 0:
            kinds += ["if", "if", "ifelse", "loop", "tgt-gate", "tgt-gate", "tgt-gate"]
        if depth == 2 and self.nq >= 3 and not self.in_realloc:
            kinds += ["realloc", "realloc", "persist2", "persist2"]
            if self.loads:
                kinds += ["nonset-live", "nonset-live", "nonset-live"]
        k = rng.choice(kinds)
        if k == "nonset-live":
            return self.nonset_written_live()
        if k == "tgt-gate":
            return self.gate_as_target(depth)
        if k == "realloc":
            return self.free_and_realloc()
        if k == "persist2":
            return self.persist_two_qubit()
        if k == "g1":
            cs = [c for c in GATE1 if c not in self.exclude]
            qr = self.qreg()
            self.put_id(qr, rng.randrange(self.nq))
            self.emit(rng.choice(cs), reg(Q, qr))
            self.features.add("gate1")
        elif k == "rot":
            qr = self.qreg()
            self.put_id(qr, rng.randrange(self.nq))
            self.emit(rng.choice(ROTS), reg(Q, qr), imm(rng.randrange(32)), imm(rng.randrange(5)))
            self.features.add("rot")
        elif k == "g2" and self.nq >= 2:
            a = rng.randrange(self.nq)
            b = rng.choice([x for x in range(self.nq) if x != a])
            qa = self.qreg()
            qb = self.qreg(avoid=(qa,))
            self.put_id(qa, a)
            self.put_id(qb, b)
            self.emit(rng.choice(["vanilla.CnotInstruction", "vanilla.CphaseInstruction"]), reg(Q, qa), reg(Q, qb))
            self.features.add("cc" if a != 0 and b != 0 else ("ec" if a == 0 else "ce"))
        elif k == "mov":
            c = rng.randrange(1, self.nq)
            a, b = (0, c) if rng.random() < 0.5 else (c, 0)
            runtime_ids = rng.random() < 0.35
            if runtime_ids:
                a, b = 0, c  # the pass assumes electron -> carbon when it does not know the ids (SDK shape)
            qa = self.qreg()
            qb = self.qreg(avoid=(qa,))
            # the NV circuits implement "move into a |0> target; source is left to be freed"
            if runtime_ids:
                # the SDK's multi-pair EPR shape: ids in R registers, unknown to the pass
                # (`sub R3 ..; set R4 0; mov R4 R3; qfree R4`)
                self.emit("core.SetInstruction", reg(R, 6), imm(b))
                self.emit("core.InitInstruction", reg(R, 6))
                self.emit("core.SetInstruction", reg(R, 7), imm(a))
                self.emit("vanilla.MovInstruction", reg(R, 7), reg(R, 6))
                self.emit("core.InitInstruction", reg(R, 7))
                self.features.add("mov-runtime-ids")
                return
            self.emit("core.SetInstruction", reg(Q, qb), imm(b))
            self.emit("core.InitInstruction", reg(Q, qb))
            self.put_id(qa, a)
            self.put_id(qb, b)
            self.emit("vanilla.MovInstruction", reg(Q, qa), reg(Q, qb))
            self.emit("core.SetInstruction", reg(Q, qa), imm(a))
            self.emit("core.InitInstruction", reg(Q, qa))
            self.features.add("mov")
        elif k == "meas":
            qr = self.qreg()
            self.put_id(qr, rng.randrange(self.nq))
            self.emit("core.MeasInstruction", reg(Q, qr), reg(M, rng.randrange(3)))
            self.features.add("meas")
        elif k == "cls":
            if rng.random() < 0.5:
                self.emit("core.SetInstruction", reg(R, rng.randrange(6)), imm(rng.randrange(4)))
            else:
                self.emit("core.AddInstruction", reg(R, rng.randrange(6)), reg(R, rng.randrange(6)),
                          reg(rng.choice([R, M]), rng.randrange(3)))
        elif k in ("if", "ifelse"):
            end = self.new_label()
            if rng.random() < 0.5:
                self.emit(rng.choice(BR1), reg(M, rng.randrange(3)), {"lab": end})
            else:
                self.emit(rng.choice(BR2), reg(R, rng.randrange(6)), reg(rng.choice([R, M]), rng.randrange(3)),
                          {"lab": end})
            self.block(depth - 1)
            if k == "ifelse":
                end2 = self.new_label()
                self.emit("core.JmpInstruction", {"lab": end2})
                self.place(end)
                self.block(depth - 1)
                self.place(end2)
            else:
                self.place(end)
            self.features.add("branch")
        elif k == "loop":
            cnt, lim = 8 + depth, 11 + depth
            top, end = self.new_label(), self.new_label()
            self.emit("core.SetInstruction", reg(R, cnt), imm(0))
            self.emit("core.SetInstruction", reg(R, lim), imm(rng.randrange(4)))
            self.place(top)
            self.emit("core.BgeInstruction", reg(R, cnt), reg(R, lim), {"lab": end})
            self.block(depth - 1)
            self.emit("core.AddInstruction", reg(R, cnt), reg(R, cnt), reg(R, 14))
            self.emit("core.JmpInstruction", {"lab": top})
            self.place(end)
            self.features.add("loop")
        else:
            self.stmt(depth)

    def persist_two_qubit(self):
        """Two dedicated Q registers are `set` ONCE; then instructions that do not write them (qalloc,
        init, a gate, meas, qfree, and unrelated straight-line statements) and, WITHOUT a new `set`, the
        registers are operands of cnot / cphase (either order) and of mov (either direction): register
        values persist across qfree/qalloc/init/meas, and the placement (electron/carbon, which role)
        must be decided by the value the register still holds."""
        rng = self.rng
        self.in_realloc = True
        qa, qb = 5, 6
        pair = rng.choice(["ec", "ce", "cc"]) if self.nq >= 3 else rng.choice(["ec", "ce"])
        c = rng.randrange(1, self.nq)
        if pair == "ec":
            a, b = 0, c
        elif pair == "ce":
            a, b = c, 0
        else:
            a, b = c, rng.choice([x for x in range(1, self.nq) if x != c])
        if pair == "cc":
            self.features.add("cc")  # (also tells the history generator: no retry point behind this)
        self.emit("core.SetInstruction", reg(Q, qa), imm(a))
        self.emit("core.SetInstruction", reg(Q, qb), imm(b))
        for r in rng.sample([qa, qb], rng.choice([1, 2])):
            self.emit("core.QAllocInstruction", reg(Q, r))
            self.emit("core.InitInstruction", reg(Q, r))
            self.emit(rng.choice(GATE1), reg(Q, r))
            if rng.random() < 0.5:
                self.emit("core.MeasInstruction", reg(Q, r), reg(M, rng.randrange(3)))
            self.emit("core.QFreeInstruction", reg(Q, r))
        for _ in range(rng.choice([0, 1])):
            self.stmt(0)
        self.emit("core.QAllocInstruction", reg(Q, qa))
        self.emit("core.InitInstruction", reg(Q, qa))
        self.emit(rng.choice(GATE1), reg(Q, qa))
        for _ in range(rng.choice([1, 2])):
            x, y = (qa, qb) if rng.random() < 0.5 else (qb, qa)
            self.emit(rng.choice(["vanilla.CnotInstruction", "vanilla.CphaseInstruction"]), reg(Q, x), reg(Q, y))
        if pair != "cc" and self.movs and rng.random() < 0.7:
            src, tgt = (qa, qb) if rng.random() < 0.5 else (qb, qa)
            self.emit("core.InitInstruction", reg(Q, tgt))
            self.emit("vanilla.MovInstruction", reg(Q, src), reg(Q, tgt))
            self.emit("core.InitInstruction", reg(Q, src))
            self.features.add("persist2:mov")
        self.emit("core.QFreeInstruction", reg(Q, qa))
        self.features.add("set-once-register-reused-after-qfree:" + pair)
        self.in_realloc = False

    def free_and_realloc(self):
        """A qubit is allocated and used through a dedicated Q register, freed, and later re-allocated
        and used through the SAME register WITHOUT a new `set` (registers persist; `qfree` does not write
        its register), with at least one carbon-carbon gate in between: the register stays live across the
        gate although its qubit is gone. The register is the lowest one the other statements never touch
        (Q2 in SDK-register style, else Q4), i.e. the one `get_unused_register` would hand out next if it
        were not in use."""
        rng = self.rng
        self.in_realloc = True
        k = 2 if self.sdk_regs else 4
        qid = rng.randrange(1, self.nq)
        self.emit("core.SetInstruction", reg(Q, k), imm(qid))
        self.emit("core.QAllocInstruction", reg(Q, k))
        self.emit("core.InitInstruction", reg(Q, k))
        self.emit(rng.choice(GATE1), reg(Q, k))
        for _ in range(rng.choice([0, 1])):
            self.stmt(1)
        self.emit("core.QFreeInstruction", reg(Q, k))

        def cc():
            a = rng.randrange(1, self.nq)
            b = rng.choice([x for x in range(1, self.nq) if x != a])
            qa = self.qreg()
            qb = self.qreg(avoid=(qa,))
            self.emit("core.SetInstruction", reg(Q, qa), imm(a))
            self.emit("core.SetInstruction", reg(Q, qb), imm(b))
            self.emit(rng.choice(["vanilla.CnotInstruction", "vanilla.CphaseInstruction"]), reg(Q, qa), reg(Q, qb))
            self.features.add("cc")
        shape = rng.choice(["plain", "plain", "loop", "if"])
        if shape == "loop":
            cnt, lim = 9, 12
            top, end = self.new_label(), self.new_label()
            self.emit("core.SetInstruction", reg(R, cnt), imm(0))
            self.emit("core.SetInstruction", reg(R, lim), imm(rng.randrange(1, 3)))
            self.place(top)
            self.emit("core.BgeInstruction", reg(R, cnt), reg(R, lim), {"lab": end})
            cc()
            self.emit("core.AddInstruction", reg(R, cnt), reg(R, cnt), reg(R, 14))
            self.emit("core.JmpInstruction", {"lab": top})
            self.place(end)
        elif shape == "if":
            end = self.new_label()
            self.emit(rng.choice(BR2), reg(R, rng.randrange(6)), reg(R, rng.randrange(3)), {"lab": end})
            cc()
            self.place(end)
            cc()
        else:
            cc()
            for _ in range(rng.choice([0, 1])):
                self.stmt(0)
        # the register still holds qid: re-allocate and use the qubit through it, no new `set`
        self.emit("core.QAllocInstruction", reg(Q, k))
        self.emit("core.InitInstruction", reg(Q, k))
        self.emit(rng.choice(GATE1), reg(Q, k))
        if rng.random() < 0.5:
            cc()
            self.emit(rng.choice(GATE1), reg(Q, k))
        if rng.random() < 0.5:
            self.emit("core.MeasInstruction", reg(Q, k), reg(M, rng.randrange(3)))
        self.emit("core.QFreeInstruction", reg(Q, k))
        self.features.add("free-then-realloc-same-register")
        self.in_realloc = False

    def nonset_written_live(self):
        """A Q register written by a NON-`set` instruction (`load` from the id array, or `add`) that is
        never a gate operand (so this is not F10's shape) but stays live across carbon-carbon gates: it is
        used before and after them by `init` / `meas` / `qalloc`+`qfree`. It is the lowest register the
        other statements never touch, and every lower one is `set` first, i.e. it is exactly the register
        a pass that forgot about it would borrow next."""
        rng = self.rng
        self.in_realloc = True
        k = 2 if self.sdk_regs else 4
        for j in range(k):
            self.emit("core.SetInstruction", reg(Q, j), imm(rng.randrange(self.nq)))
        qid = rng.randrange(1, self.nq)
        if rng.random() < 0.6:
            self.emit("core.SetInstruction", reg(R, 7), imm(qid))
            self.emit("core.LoadInstruction", reg(Q, k), {"e": [0, R, 7]})
            self.features.add("nonset-live:load")
        else:
            self.emit("core.SetInstruction", reg(R, 7), imm(qid - 1))
            self.emit("core.AddInstruction", reg(Q, k), reg(R, 7), reg(R, 14))
            self.features.add("nonset-live:add")
        if rng.random() < 0.5:
            self.emit("core.InitInstruction", reg(Q, k))

        def cc():
            a = rng.randrange(1, self.nq)
            b = rng.choice([x for x in range(1, self.nq) if x != a])
            qa = self.qreg()
            qb = self.qreg(avoid=(qa,))
            self.emit("core.SetInstruction", reg(Q, qa), imm(a))
            self.emit("core.SetInstruction", reg(Q, qb), imm(b))
            self.emit(rng.choice(["vanilla.CnotInstruction", "vanilla.CphaseInstruction"]), reg(Q, qa), reg(Q, qb))
            self.features.add("cc")
        cc()
        for _ in range(rng.choice([0, 1])):
            self.stmt(0)
        if rng.random() < 0.4:
            cc()
        # uses of the register after the gates: never as a gate operand
        use = rng.choice(["meas", "init-meas", "alloc-free"])
        if use == "alloc-free":
            self.emit("core.QAllocInstruction", reg(Q, k))
            self.emit("core.InitInstruction", reg(Q, k))
            self.emit("core.MeasInstruction", reg(Q, k), reg(M, rng.randrange(3)))
            self.emit("core.QFreeInstruction", reg(Q, k))
        else:
            if use == "init-meas":
                self.emit("core.InitInstruction", reg(Q, k))
            self.emit("core.MeasInstruction", reg(Q, k), reg(M, rng.randrange(3)))
        self.features.add("nonset-written-register-live-across-cc")
        self.in_realloc = False

    def gate_as_target(self, depth):
        """A branch/jump whose TARGET is the gate itself (not the `set`s before it): the gate as the
        head of a do-while loop (backward branch) or as the join point of a skipped block (forward
        branch). Every kind of expanded gate, in particular carbon-carbon ones whose expansion carries
        debug markers. The gate's registers are dedicated per nesting depth (Q8..Q13) and written once,
        straight-line before the label, so they hold what the pass assumes on every path."""
        rng = self.rng
        qa, qb = 8 + 2 * depth, 9 + 2 * depth
        kinds = ["g1", "rot"]
        if self.nq >= 2:
            kinds += ["ec", "ce"]
        if self.nq >= 3:
            kinds += ["cc", "cc", "cc"]
        kind = rng.choice(kinds)
        if kind in ("g1", "rot"):
            self.emit("core.SetInstruction", reg(Q, qa), imm(rng.randrange(self.nq)))
            if kind == "g1":
                cs = [c for c in GATE1 if c not in self.exclude]
                gate = ins(rng.choice(cs), reg(Q, qa))
            else:
                gate = ins(rng.choice(ROTS), reg(Q, qa), imm(rng.randrange(32)), imm(rng.randrange(5)))
        else:
            if kind == "ec":
                a, b = 0, rng.randrange(1, self.nq)
            elif kind == "ce":
                a, b = rng.randrange(1, self.nq), 0
            else:
                a = rng.randrange(1, self.nq)
                b = rng.choice([x for x in range(1, self.nq) if x != a])
            self.emit("core.SetInstruction", reg(Q, qa), imm(a))
            self.emit("core.SetInstruction", reg(Q, qb), imm(b))
            gate = ins(rng.choice(["vanilla.CnotInstruction", "vanilla.CphaseInstruction"]), reg(Q, qa), reg(Q, qb))
        self.features.add("target-is-" + kind)
        if rng.random() < 0.5:
            # backward: do-while with the gate as loop head
            cnt, lim = 8 + depth, 11 + depth
            top = self.new_label()
            self.emit("core.SetInstruction", reg(R, cnt), imm(0))
            self.emit("core.SetInstruction", reg(R, lim), imm(rng.randrange(1, 4)))
            if rng.random() < 0.7:
                self.stmt(0)  # something right before the head, re-executed if the branch lands early
            self.place(top)
            self.items.append(gate)
            for _ in range(rng.choice([0, 1, 2])):
                self.stmt(depth - 1)
            self.emit("core.AddInstruction", reg(R, cnt), reg(R, cnt), reg(R, 14))
            self.emit("core.BltInstruction", reg(R, cnt), reg(R, lim), {"lab": top})
            self.features.add("target-backward")
        else:
            # forward: a conditionally skipped block that joins at the gate
            join = self.new_label()
            if rng.random() < 0.5:
                self.emit(rng.choice(BR1), reg(M, rng.randrange(3)), {"lab": join})
            else:
                self.emit(rng.choice(BR2), reg(R, rng.randrange(6)),
                          reg(rng.choice([R, M]), rng.randrange(3)), {"lab": join})
            for _ in range(rng.choice([1, 2])):
                self.stmt(depth - 1)
            self.place(join)
            self.items.append(gate)
            self.features.add("target-forward")

    def block(self, depth):
        for _ in range(self.rng.choice([1, 1, 2, 3])):
            self.stmt(depth)

    def program(self, size, fail=None):
        """`fail`: None | "hw" | "mov-cc": put, at a random top-level position that no carbon-carbon
        gate precedes, an instruction on which the pass raises (a rotation with denominator 5 under the
        hardware setting; a carbon->carbon mov). `self.fail_pos` = its index (None if no place was found)."""
        self.prologue()
        self.fail_pos = None
        where = self.rng.randrange(size + 1) if fail else None
        for k in range(size + 1):
            if fail and k == where and not any(f in self.features for f in ("cc", "target-is-cc")):
                if fail == "hw":
                    self.emit("core.SetInstruction", reg(Q, 15), imm(self.rng.randrange(self.nq)))
                    self.fail_pos = len([i for i in self.items if not isinstance(i, tuple)])
                    self.emit(self.rng.choice(ROTS), reg(Q, 15), imm(1 + self.rng.randrange(31)), imm(5))
                else:
                    self.emit("core.SetInstruction", reg(Q, 14), imm(1))
                    self.emit("core.SetInstruction", reg(Q, 15), imm(2))
                    self.fail_pos = len([i for i in self.items if not isinstance(i, tuple)])
                    self.emit("vanilla.MovInstruction", reg(Q, 14), reg(Q, 15))
            if k < size:
                if self.ret_block and self.end_label is None and self.rng.random() < 0.5:
                    # a conditional jump to the label BEHIND the trailing return block
                    self.end_label = self.new_label()
                    if self.rng.random() < 0.5:
                        self.emit(self.rng.choice(BR1), reg(self.rng.choice([R, M]), self.rng.randrange(3)),
                                  {"lab": self.end_label})
                    else:
                        self.emit(self.rng.choice(BR2), reg(R, self.rng.randrange(6)),
                                  reg(self.rng.choice([R, M]), self.rng.randrange(3)), {"lab": self.end_label})
                self.stmt(2)
        if self.ret_block:
            # what every SDK subroutine ends in: ret_reg / ret_arr; sometimes entered through a label
            if self.rng.random() < 0.3:
                into = self.new_label()
                self.emit(self.rng.choice(BR2), reg(R, self.rng.randrange(6)), reg(R, self.rng.randrange(3)),
                          {"lab": into})
                self.stmt(0)
                self.place(into)
            for _ in range(self.rng.choice([1, 2, 3])):
                self.emit("core.RetRegInstruction", reg(self.rng.choice([R, R, M]), self.rng.randrange(3)))
            if self.loads and self.rng.random() < 0.7:
                self.emit("core.RetArrInstruction", {"a": 0})
            if self.end_label is not None:
                self.place(self.end_label)
            self.features.add("return-block")
        js = self.resolve()
        n = len(js)
        for j in js:
            if j["c"] in BR1 + BR2 + ["core.JmpInstruction"] and j["o"][-1]["i"] == n:
                self.features.add("target=end")
        return js


def head0_program(rng, nq):
    """Two subroutines run one after the other on the same application: the first only sets
    registers; the second is a counted loop whose HEAD IS INSTRUCTION 0 (a backward branch to line 0,
    which is taken), the head being a gate to be expanded (its Q register set by the first subroutine),
    a `set`, or a classical instruction. Returns (sub1, sub2, features)."""
    g = ProgGen(rng, nq)
    g.prologue()
    cnt, lim = 10, 13   # not used by nested statements of depth <= 1
    g.emit("core.SetInstruction", reg(R, cnt), imm(0))
    g.emit("core.SetInstruction", reg(R, lim), imm(rng.randrange(1, 4)))
    g.emit("core.SetInstruction", reg(Q, 14), imm(rng.randrange(nq)))
    sub1 = g.resolve()
    g.items = []
    top = g.new_label()
    g.place(top)
    kind = rng.choice(["g1", "rot", "stmt", "stmt", "cls"])
    if kind == "g1":
        g.emit(rng.choice(GATE1), reg(Q, 14))
    elif kind == "rot":
        g.emit(rng.choice(ROTS), reg(Q, 14), imm(rng.randrange(32)), imm(rng.randrange(5)))
    elif kind == "cls":
        g.emit("core.AddInstruction", reg(R, rng.randrange(6)), reg(R, rng.randrange(6)), reg(R, rng.randrange(3)))
    else:
        g.stmt(0)  # starts with a `set` (of a Q or R register): line 0 is a non-gate
    for _ in range(rng.choice([0, 1, 2, 3])):
        g.stmt(1)
    g.emit("core.AddInstruction", reg(R, cnt), reg(R, cnt), reg(R, 14))
    if rng.random() < 0.5:
        g.emit("core.BltInstruction", reg(R, cnt), reg(R, lim), {"lab": top})
    else:
        end = g.new_label()
        g.emit("core.BgeInstruction", reg(R, cnt), reg(R, lim), {"lab": end})
        g.emit("core.JmpInstruction", {"lab": top})
        g.place(end)
    for _ in range(rng.choice([0, 0, 1])):
        g.stmt(1)
    sub2 = g.resolve()
    g.features.add("target=0:" + kind)
    return sub1, sub2, g.features


def replace_loads_by_sets(js, load_sites):
    """the F10 delta: every `load Qr @0[R7]` becomes the equivalent `set Qr <id>` (same length)"""
    out = [dict(j) for j in js]
    for pos, qr, qid in load_sites:
        assert out[pos]["c"] == "core.LoadInstruction"
        out[pos] = ins("core.SetInstruction", reg(Q, qr), imm(qid))
    return out


def has_nonset_q_write_reaching_gate(js):
    """F10's recorded feature: a Q register written by a non-`set` instruction is later named by a
    gate with no `set` of that register in between (textually — the pass is flow-insensitive)."""
    dirty = set()
    for j in js:
        c = HC.class_by_name(j["c"])
        o = j["o"]
        if c is core.SetInstruction:
            dirty.discard(tuple(o[0]["r"]))
            continue
        if issubclass(c, (core.SingleQubitInstruction, core.RotationInstruction, core.TwoQubitInstruction)):
            for x in o:
                if "r" in x and tuple(x["r"]) in dirty:
                    return True
        inst = instr_from_json(j)
        for w in inst.writes_to():
            if w.name == RegisterName.Q:
                dirty.add((w.name.value, w.index))
    return False


def nonq_two_qubit_gate(js):
    """F10's second recorded feature: a cnot/cphase names a register that is not a Q register
    (the pass has no value for it and asserts)."""
    for j in js:
        if j["c"] in ("vanilla.CnotInstruction", "vanilla.CphaseInstruction"):
            if any("r" in o and o["r"][0] != Q for o in j["o"]):
                return True
    return False


def nonq_to_q(js):
    """the delta for that feature: the same program with those gate operands (and the `set`s that
    define them) moved to the Q registers of the same index"""
    regs = set()
    for j in js:
        if j["c"] in ("vanilla.CnotInstruction", "vanilla.CphaseInstruction"):
            regs |= {tuple(o["r"]) for o in j["o"] if "r" in o and o["r"][0] != Q}
    out = []
    for j in js:
        if j["c"] in ("vanilla.CnotInstruction", "vanilla.CphaseInstruction", "core.SetInstruction"):
            out.append({"c": j["c"], "o": [reg(Q, o["r"][1]) if "r" in o and tuple(o["r"]) in regs else o
                                           for o in j["o"]]})
        else:
            out.append(j)
    return out


def soup(rng, n):
    """Unstructured instruction soup for the syntactic stream (not meant to be executable): any
    vanilla class, arbitrary targets (also out of range), gates on registers that may be unset,
    equal ids, impossible moves, hardware denominators > 4."""
    js = []
    qv = [0, 0, 1, 2, 3]
    for _ in range(n):
        t = rng.random()
        qa, qb = rng.randrange(5), rng.randrange(5)
        if t < 0.30:
            js.append(ins("core.SetInstruction", reg(rng.choice([Q, Q, Q, R, C, M]), rng.randrange(5)),
                          imm(rng.choice(qv))))
        elif t < 0.45:
            c = rng.choice(GATE1 + ROTS)
            if c in ROTS:
                js.append(ins(c, reg(rng.choice([Q, Q, Q, R]), qa), imm(rng.randrange(256)),
                              imm(rng.choice([0, 1, 2, 3, 4, 4, 5, 9]))))
            else:
                js.append(ins(c, reg(rng.choice([Q, Q, Q, R]), qa)))
        elif t < 0.70:
            c = rng.choice(["vanilla.CnotInstruction", "vanilla.CphaseInstruction", "vanilla.MovInstruction"])
            js.append(ins(c, reg(rng.choice([Q, Q, Q, Q, R]), qa), reg(rng.choice([Q, Q, Q, Q, R]), qb)))
        elif t < 0.85:
            tgt = rng.choice([n, n, rng.randrange(n + 1), rng.randrange(n + 1), rng.randrange(-1, n + 3)])
            k = rng.random()
            if k < 0.3:
                js.append(ins("core.JmpInstruction", imm(tgt)))
            elif k < 0.6:
                js.append(ins(rng.choice(BR1), reg(rng.choice([R, M, Q]), qa), imm(tgt)))
            else:
                js.append(ins(rng.choice(BR2), reg(R, qa), reg(rng.choice([R, M]), qb), imm(tgt)))
        elif t < 0.90:
            js.append(ins("core.LoadInstruction", reg(rng.choice([Q, R]), qa), {"e": [0, R, qb]}))
        else:
            js.append(HC.instr_to_json(HC.random_instr("vanilla", rng)))
    return js


# ---------------------------------------------------------------- SDK stream

class _Recorder:
    """Stands in for the compiler class the builder instantiates: records the vanilla subroutine
    the SDK produced, then runs the real NV pass on it."""
    log = []

    def __init__(self, subroutine, debug=False):
        self.sub = subroutine

    def transpile(self):
        before = [instr_to_json(i) for i in self.sub.instructions]
        try:
            out = NVSubroutineTranspiler(self.sub).transpile()
            after = [instr_to_json(i) for i in out.instructions]
        except Exception as e:
            _Recorder.log.append((before, {"err": type(e).__name__}))
            raise
        _Recorder.log.append((before, {"ok": after}))
        return out


def sdk_program(rng, nq):
    """A random host program on the real SDK (NV compiler selected); returns the list of
    (vanilla subroutine JSON, real transpiler result) per flushed subroutine, or None if the SDK
    itself rejected the program."""
    from netqasm.sdk.connection import BaseNetQASMConnection, DebugConnection
    from netqasm.sdk.qubit import Qubit
    SharedMemoryManager.reset_memories()
    BaseNetQASMConnection._app_ids.clear()
    DebugConnection.node_ids = {"Alice": 0}
    _Recorder.log = []
    feats = set()
    try:
        with DebugConnection("Alice", compiler=NVSubroutineTranspiler, max_qubits=nq) as conn:
            conn._builder._compiler = _Recorder
            qs = [Qubit(conn) for _ in range(rng.randrange(1, nq + 1))]

            def gate():
                q = rng.choice(qs)
                k = rng.randrange(12)
                if k < 7:
                    getattr(q, "XYZHKST"[k])()
                elif k < 10:
                    getattr(q, ["rot_X", "rot_Y", "rot_Z"][k - 7])(n=rng.randrange(16), d=rng.randrange(5))
                elif len(qs) >= 2:
                    a, b = rng.sample(qs, 2)
                    (a.cnot if k == 10 else a.cphase)(b)
                    feats.add("sdk-2q")

            for _ in range(rng.randrange(1, 6)):
                k = rng.random()
                if k < 0.5:
                    gate()
                elif k < 0.65:
                    with conn.loop(rng.randrange(1, 4)):
                        gate()
                        if rng.random() < 0.5:
                            gate()
                    feats.add("sdk-loop")
                elif k < 0.85 and len(qs) > 1:
                    q = qs.pop(rng.randrange(len(qs)))
                    m = q.measure()
                    with m.if_eq(rng.randrange(2)):
                        gate()
                    feats.add("sdk-if")
                else:
                    if rng.random() < 0.3:
                        conn.flush()
                        feats.add("sdk-flush")
                    gate()
            if rng.random() < 0.5 and len(qs) > 1:
                m = qs.pop().measure()
                with m.if_ne(0):
                    gate()
                feats.add("sdk-if-at-end")
    except Exception as e:  # the SDK rejected the host program: not a C08 matter
        if not _Recorder.log or "err" not in _Recorder.log[-1][1]:
            return None, feats, type(e).__name__
    return list(_Recorder.log), feats, None
