"""EPR operations for C14 (register discipline of completed EPR operations).

A *form* describes one call of the EPR socket API:
  {"api": create_keep | create_keep_with_info | create_measure | create_rsp | create_context |
          recv_keep | recv_keep_with_info | recv_measure | recv_rsp | recv_rsp_with_info | recv_context,
   "mode": "plain" | "post" | "seq"        (post routine / sequential; context: plain | seq)
   "n": 1..3, "expect": bool (receivers), "minfid": None | int, "hw": "generic" | "nv" | "nvc"}

`run_form(conn, sock, form)` performs the call through the real SDK (and gives every qubit it gets
back to the SDK again, so that operations can be repeated).  `events(form)` records, on a fresh
connection, which R registers the MemoryManager hands out / takes back during the call, in the
abstract form the Lean model replays: -1 = take (lowest free register), p >= 0 = release of the p-th
register currently held by the operation.
"""
from harness import pipeline as P

from netqasm.sdk.epr_socket import EPRSocket  # noqa: E402
from netqasm.sdk.qubit import Qubit  # noqa: E402
from netqasm.sdk.build_types import GenericHardwareConfig, NVHardwareConfig  # noqa: E402
from netqasm.lang.encoding import RegisterName  # noqa: E402

MAXQ = 6
KEEP = ("create_keep", "create_keep_with_info", "recv_keep", "recv_keep_with_info")
RECV = ("recv_keep", "recv_keep_with_info", "recv_measure", "recv_rsp", "recv_rsp_with_info")
MINFID = ("create_keep", "create_rsp", "recv_keep", "recv_keep_with_info", "recv_rsp", "recv_rsp_with_info")
CTX = ("create_context", "recv_context")
APIS = KEEP + ("create_measure", "create_rsp", "recv_measure", "recv_rsp", "recv_rsp_with_info") + CTX


def hardware(hw):
    from netqasm.sdk.transpile import NVSubroutineTranspiler
    if hw == "generic":
        return dict(hardware_config=GenericHardwareConfig(MAXQ), max_qubits=MAXQ)
    if hw == "nv":
        return dict(hardware_config=NVHardwareConfig(MAXQ), max_qubits=MAXQ)
    if hw == "nvc":
        return dict(hardware_config=NVHardwareConfig(MAXQ), compiler=NVSubroutineTranspiler, max_qubits=MAXQ)
    raise ValueError(hw)


def all_forms(hws=("generic", "nv", "nvc")):
    out = []
    for hw in hws:
        for api in APIS:
            modes = ("plain", "post", "seq") if api in KEEP else (("plain", "seq") if api in CTX else ("plain",))
            for mode in modes:
                for n in (1, 2, 3):
                    expects = (True, False) if api in RECV else (True,)
                    for expect in expects:
                        minfids = (None, 80) if (api in MINFID and mode == "plain") else (None,)
                        for minfid in minfids:
                            out.append({"api": api, "mode": mode, "n": n, "expect": expect, "minfid": minfid, "hw": hw})
    return out


def form_name(f):
    return "%s/%s/n%d/%s/%s/%s" % (f["api"], f["mode"], f["n"], "phi+" if f["expect"] else "raw",
                                   "minfid" if f["minfid"] else "-", f["hw"])


def _release(qs):
    for q in qs or []:
        try:
            if isinstance(q, Qubit) and q.active:
                q.free()
        except Exception:
            pass


def run_form(conn, sock, f):
    """One completed EPR operation through the real API."""
    api, mode, n = f["api"], f["mode"], f["n"]

    def post(c, q, pair):
        q.H()
        q.free()

    if api in CTX:
        kw = dict(number=n, sequential=(mode == "seq"))
        with getattr(sock, api)(**kw) as (q, pair):
            q.H()
            q.measure()
        return
    kw = dict(number=n)
    if api in RECV:
        kw["expect_phi_plus"] = f["expect"]
    if api in KEEP and mode in ("post", "seq"):
        kw["post_routine"] = post
        kw["sequential"] = mode == "seq"
    if f.get("minfid"):
        kw["min_fidelity_all_at_end"] = f["minfid"]
        if api != "create_keep_with_info":
            kw["max_tries"] = 3
    out = getattr(sock, api)(**kw)
    if api.endswith("_with_info"):
        _release(out[0])
    elif api in ("create_keep", "recv_keep", "recv_rsp"):
        _release(out)


def new_connection(hw="generic"):
    P.reset_globals()
    sock = EPRSocket("bob")
    conn = P.PipelineConnection("alice", executor=P.TraceExecutor(name="alice"), epr_sockets=[sock],
                                **hardware(hw))
    return conn, sock


class Recorder:
    """Wraps the MemoryManager of a connection: sequence of take / release events on R registers."""

    def __init__(self, mm):
        self.mm = mm
        self.raw = []
        self._add, self._rem = mm.add_active_register, mm.remove_active_register

        def add(reg):
            was = set(mm._active_registers)
            self._add(reg)
            if reg.name == RegisterName.R:
                lowest = next(i for i in range(16) if not any(r.name == RegisterName.R and r.index == i for r in was))
                self.raw.append(("take", reg.index, reg.index == lowest))

        def rem(reg):
            self._rem(reg)
            if reg.name == RegisterName.R:
                self.raw.append(("rel", reg.index, True))

        mm.add_active_register, mm.remove_active_register = add, rem

    def stop(self):
        self.mm.add_active_register, self.mm.remove_active_register = self._add, self._rem

    def abstract(self):
        """-1 = take, p = release of the p-th held register; None if an event does not fit the abstraction."""
        held, out = [], []
        for kind, idx, ok in self.raw:
            if kind == "take":
                if not ok:
                    return None
                held.append(idx)
                out.append(-1)
            else:
                if idx not in held:
                    return None
                p = held.index(idx)
                held.pop(p)
                out.append(p)
        return out


_CACHE = {}


def events(f):
    """(abstract events, error) of the form, recorded on a fresh connection (empty register pool)."""
    key = form_name(f)
    if key not in _CACHE:
        conn, sock = new_connection(f["hw"])
        rec = Recorder(conn.builder._mem_mgr)
        err = None
        try:
            run_form(conn, sock, f)
        except Exception as e:
            err = "%s: %s" % (type(e).__name__, str(e)[:100])
        rec.stop()
        _CACHE[key] = (rec.abstract(), err, sorted(r.index for r in conn.builder._mem_mgr._active_registers
                                                  if r.name == RegisterName.R))
    return _CACHE[key]
