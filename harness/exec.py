"""Real-code side of the `exec` correspondence stream (C04, C13).

A *scenario* is `{"hw": bool, "apps": [ids], "addrs": [array addresses to dump], "ops": [...]}`.
Ops (same JSON goes to the Lean driver, op `exec.scenario`):
  {"k":"init","a":A,"n":N}            Executor.init_new_application(A, N)
  {"k":"stop","a":A}                  Executor.stop_application(A)
  {"k":"sub","a":A,"p":[instr…],"fuel":F,"or":[outcomes]}   execute_subroutine, at most F instructions
  {"k":"reserve"}                     the network stack takes an unused physical qubit
  {"k":"keep","a":A,"qa":ADDR,"p":P}  OK_K response: virtual address = @ADDR[0], physical P
Instructions are JSON arrays `[mnemonic, ints…]` in *semantic* operand order
(`add d x y`, `addm d x y m`, `store value @a[i]` = ["store", b, i, a, bi, ii]).
With `"msg": true` init/stop/sub travel through the `QNodeController` message handlers
(binary subroutine encoding on the path).
"""
import copy
import json
import re

from vlib import common

common.use_repo()
from netqasm.backend import executor as executor_mod  # noqa: E402
from netqasm.backend.executor import EprCmdData, Executor  # noqa: E402
from netqasm.backend.messages import InitNewAppMessage, StopAppMessage, SubroutineMessage  # noqa: E402
from netqasm.backend.qnodeos import QNodeController  # noqa: E402
from netqasm.lang import operand as op  # noqa: E402
from netqasm.lang.encoding import RegisterName  # noqa: E402
from netqasm.lang.instr import core, vanilla  # noqa: E402
from netqasm.lang.instr.flavour import VanillaFlavour  # noqa: E402
from netqasm.lang.subroutine import Subroutine  # noqa: E402
from netqasm.logging.glob import set_log_level  # noqa: E402
from netqasm.qlink_compat import LinkLayerOKTypeK  # noqa: E402
from netqasm.runtime.settings import set_is_using_hardware  # noqa: E402
from netqasm.sdk.shared_memory import SharedMemoryManager  # noqa: E402

set_log_level("CRITICAL")

MAX_ARRAY = 400
NODE = "verif-node"


PRE = "verif-pre-instruction"


class StepLimit(BaseException):
    """more than `fuel` instructions (BaseException: not caught by the executor's handler)"""


class Skip(BaseException):
    """the case would allocate a huge Python list; the scenario is cut here"""


class TraceExecutor(Executor):
    """Base executor + recording hooks (documented extension points only)."""

    def __init__(self, *a, **k):
        super().__init__(*a, **k)
        self.events = []
        self.outcomes = []
        self.fuel = None
        self.steps = 0
        self.visited = []
        self.last_pc = None
        self.returned = {}  # (app, address) -> copy of the array at the moment of ret_arr
        self.reports = []   # faults handed to a recording `_handle_command_exception` (LenientExecutor)
        self.hook_armed = False

    def _clear_phys_qubit_in_memory(self, physical_address):
        # reset hook of the quantum processor: a yield point; fault injection: raises once when armed
        if self.hook_armed:
            self.hook_armed = False
            raise RuntimeError("injected failure of the reset hook")
        return super()._clear_phys_qubit_in_memory(physical_address)

    @property
    def node_id(self):
        return 0

    # -- quantum hooks ---------------------------------------------------------
    def _app(self, sid):
        return self._subroutines[sid].app_id

    def _do_single_qubit_instr(self, instr, subroutine_id, address):
        self.events.append({"app": self._app(subroutine_id), "name": instr.mnemonic, "args": [address]})

    def _do_single_qubit_rotation(self, instr, subroutine_id, address, angle):
        self.events.append({"app": self._app(subroutine_id), "name": instr.mnemonic,
                            "args": [address, instr.angle_num.value, instr.angle_denom.value]})

    def _do_two_qubit_instr(self, instr, subroutine_id, address1, address2):
        self.events.append({"app": self._app(subroutine_id), "name": instr.mnemonic, "args": [address1, address2]})

    def _do_controlled_qubit_rotation(self, instr, subroutine_id, address1, address2, angle):
        self.events.append({"app": self._app(subroutine_id), "name": instr.mnemonic,
                            "args": [address1, address2, instr.angle_num.value, instr.angle_denom.value]})

    def _do_meas(self, subroutine_id, q_address):
        self.events.append({"app": self._app(subroutine_id), "name": "meas", "args": [q_address]})
        return self.outcomes.pop(0) if self.outcomes else 0

    def _do_wait(self):
        yield "wait"

    def _wait_to_handle_epr_responses(self):
        return None

    # -- observation / guards --------------------------------------------------
    def _execute_command(self, subroutine_id, command):
        # a yield point before every instruction: lets the harness interleave subroutines of
        # different applications at instruction granularity (DESIGN 3.4)
        yield PRE
        if self.fuel is not None and self.steps >= self.fuel:
            raise StepLimit()
        self.steps += 1
        self.visited.append(self._program_counters[subroutine_id])
        return (yield from super()._execute_command(subroutine_id, command))

    def _clear_subroutine(self, subroutine_id):
        self.last_pc = self._program_counters.get(subroutine_id)
        super()._clear_subroutine(subroutine_id)

    def _initialize_array(self, app_id, address, length):
        if length > MAX_ARRAY:
            raise Skip()
        super()._initialize_array(app_id, address, length)

    def _instr_ret_arr(self, subroutine_id, instr):
        out = yield from super()._instr_ret_arr(subroutine_id, instr)
        app = self._app(subroutine_id)
        self.returned[(app, instr.address.address)] = list(self._app_arrays[app]._arrays[instr.address.address])
        return out


class LenientMixin:
    """`_handle_command_exception` is an extension point: simulators log the fault and keep the node
    alive instead of re-raising.  This variant records (class, line) and returns."""

    def _handle_command_exception(self, exc, prog_counter, traceback_str):
        self.reports.append((type(exc).__name__, prog_counter))


class LenientExecutor(LenientMixin, TraceExecutor):
    pass


class Controller(QNodeController):
    @classmethod
    def _get_executor_class(cls, flavour=None):
        return TraceExecutor

    def stop(self):
        pass

    def _mark_message_finished(self, msg_id, msg):
        pass


# ---------------------------------------------------------------- instructions

def R(b, i):
    return op.Register(RegisterName(b), i)


def E(a, b, i):
    return op.ArrayEntry(op.Address(a), R(b, i))


Q1 = {"init": core.InitInstruction, "x": vanilla.GateXInstruction, "h": vanilla.GateHInstruction,
      "z": vanilla.GateZInstruction, "t": vanilla.GateTInstruction}
ROT = {"rot_x": vanilla.RotXInstruction, "rot_z": vanilla.RotZInstruction}
Q2 = {"cnot": vanilla.CnotInstruction, "cphase": vanilla.CphaseInstruction}
CROT = {"crot_x": getattr(vanilla, "CtrlRotXInstruction", None)}
CROT = {k: v for k, v in CROT.items() if v is not None}
BR1 = {"bez": core.BezInstruction, "bnz": core.BnzInstruction}
BR2 = {"beq": core.BeqInstruction, "bne": core.BneInstruction, "blt": core.BltInstruction,
       "bge": core.BgeInstruction}
AR = {"add": core.AddInstruction, "sub": core.SubInstruction}
ARM = {"addm": core.AddmInstruction, "subm": core.SubmInstruction}


def build(j):
    """JSON instruction -> real instruction object (raw dataclass fields, text operand order)."""
    m, x = j[0], j[1:]
    Imm = op.Immediate
    if m == "set":
        return core.SetInstruction(reg=R(x[0], x[1]), imm=Imm(x[2]))
    if m == "load":
        return core.LoadInstruction(reg=R(x[0], x[1]), entry=E(x[2], x[3], x[4]))
    if m == "store":
        return core.StoreInstruction(reg=R(x[0], x[1]), entry=E(x[2], x[3], x[4]))
    if m == "lea":
        return core.LeaInstruction(reg=R(x[0], x[1]), address=op.Address(x[2]))
    if m == "undef":
        return core.UndefInstruction(entry=E(x[0], x[1], x[2]))
    if m == "array":
        return core.ArrayInstruction(reg=R(x[0], x[1]), address=op.Address(x[2]))
    if m in AR:
        return AR[m](reg0=R(x[0], x[1]), reg1=R(x[2], x[3]), reg2=R(x[4], x[5]))
    if m in ARM:
        return ARM[m](reg0=R(x[0], x[1]), reg1=R(x[2], x[3]), reg2=R(x[4], x[5]), reg3=R(x[6], x[7]))
    if m in BR1:
        return BR1[m](reg=R(x[0], x[1]), imm=Imm(x[2]))
    if m in BR2:
        return BR2[m](reg0=R(x[0], x[1]), reg1=R(x[2], x[3]), imm=Imm(x[4]))
    if m == "jmp":
        return core.JmpInstruction(imm=Imm(x[0]))
    if m == "ret_reg":
        return core.RetRegInstruction(reg=R(x[0], x[1]))
    if m == "ret_arr":
        return core.RetArrInstruction(address=op.Address(x[0]))
    if m == "qalloc":
        return core.QAllocInstruction(reg=R(x[0], x[1]))
    if m == "qfree":
        return core.QFreeInstruction(reg=R(x[0], x[1]))
    if m == "meas":
        return core.MeasInstruction(reg0=R(x[0], x[1]), reg1=R(x[2], x[3]))
    kind, _, name = m.partition(":")
    if kind == "q1":
        return Q1[name](reg=R(x[0], x[1]))
    if kind == "rot":
        return ROT[name](reg=R(x[0], x[1]), imm0=Imm(x[2]), imm1=Imm(x[3]))
    if kind == "q2":
        return Q2[name](reg0=R(x[0], x[1]), reg1=R(x[2], x[3]))
    if kind == "crot":
        return CROT[name](reg0=R(x[0], x[1]), reg1=R(x[2], x[3]), imm0=Imm(x[4]), imm1=Imm(x[5]))
    raise ValueError(m)


def render(j):
    """human-readable form for reports"""
    names = "RCQM"
    m, x = j[0], j[1:]

    def r(k):
        return "%s%d" % (names[x[k]], x[k + 1])
    if m == "set":
        return f"set {r(0)} {x[2]}"
    if m in ("load", "store"):
        return f"{m} {r(0)} @{x[2]}[{r(3)}]"
    if m == "lea":
        return f"lea {r(0)} @{x[2]}"
    if m == "undef":
        return f"undef @{x[0]}[{r(1)}]"
    if m == "array":
        return f"array {r(0)} @{x[2]}"
    if m in AR:
        return f"{m} {r(0)} {r(2)} {r(4)}"
    if m in ARM:
        return f"{m} {r(0)} {r(2)} {r(4)} {r(6)}"
    if m in BR1:
        return f"{m} {r(0)} {x[2]}"
    if m in BR2:
        return f"{m} {r(0)} {r(2)} {x[4]}"
    if m == "jmp":
        return f"jmp {x[0]}"
    if m == "ret_arr":
        return f"ret_arr @{x[0]}"
    if m in ("ret_reg", "qalloc", "qfree"):
        return f"{m} {r(0)}"
    if m == "meas":
        return f"meas {r(0)} {r(2)}"
    kind, _, name = m.partition(":")
    if kind == "q1":
        return f"{name} {r(0)}"
    if kind == "rot":
        return f"{name} {r(0)} {x[2]} {x[3]}"
    if kind == "q2":
        return f"{name} {r(0)} {r(2)}"
    return f"{name} {r(0)} {r(2)} {x[4]} {x[5]}"


# ---------------------------------------------------------------- running the real code

def _exc(ex):
    m = re.match(r"['\"]?At line (-?\d+):", str(ex))
    return type(ex).__name__, (int(m.group(1)) if m else None)


class Real:
    """One real controller/executor driven by scenario ops; produces the driver's observation format."""

    def __init__(self, sc):
        self.sc = sc
        SharedMemoryManager.reset_memories()
        set_is_using_hardware(bool(sc["hw"]))
        self.msg = bool(sc.get("msg"))
        self.lenient = bool(sc.get("lenient"))
        self.ctxs = []
        for k in range(sc.get("nex", 1)):   # several executors in one process (nodes of one simulation)
            name = NODE if k == 0 else "%s-%d" % (NODE, k)
            if self.msg:
                ctrl = Controller(name=name, flavour=VanillaFlavour())
                e = ctrl._executor
            else:
                ctrl = None
                e = (LenientExecutor if self.lenient else TraceExecutor)(name=name)
            self.ctxs.append({"name": name, "ctrl": ctrl, "e": e, "reserved": set(), "subs": []})
        self.select({})
        self.nmsg = 0

    def select(self, o):
        c = self.ctxs[o.get("ex", 0)]
        self.name, self.ctrl, self.e, self.reserved, self.subs = c["name"], c["ctrl"], c["e"], c["reserved"], c["subs"]

    def close(self):
        set_is_using_hardware(False)
        SharedMemoryManager.reset_memories()

    # -- state dump --------------------------------------------------------------
    def live_apps(self):
        return sorted(self.e._qubit_unit_modules)

    def dump_app(self, a):
        e = self.e
        if a not in e._qubit_unit_modules:
            return None
        regs, shm_regs, arrays, shm_arrays = [], [], [], []
        sm = e._shared_memories.get(a)
        for b in range(4):
            for i in range(16):
                g = e._registers[a][RegisterName(b)] if a in e._registers else None
                regs.append(g._register.get(i) if g is not None else None)
                shm_regs.append(sm._registers[RegisterName(b)]._register.get(i) if sm is not None else None)
        for ad in self.sc["addrs"]:
            arr = e._app_arrays[a]._arrays.get(ad) if a in e._app_arrays else None
            arrays.append(list(arr) if arr is not None else None)
            sarr = sm._arrays._arrays.get(ad) if sm is not None else None
            shm_arrays.append(list(sarr) if sarr is not None else None)
        return {"regs": regs, "arrays": arrays, "shmRegs": shm_regs, "shmArrays": shm_arrays,
                "unit": list(e._qubit_unit_modules[a])}

    def dump(self):
        e = self.e
        reg = sorted(k[1] for k, v in SharedMemoryManager._MEMORIES.items() if k[0] == self.name and v is not None)
        return {"apps": [self.dump_app(a) for a in self.sc["apps"]],
                "used": sorted(e._used_physical_qubit_addresses),
                "reserved": sorted(self.reserved),
                "registry": reg,
                "ntrace": len(e.events)}

    # -- ops -----------------------------------------------------------------------
    def _consume(self, gen):
        if gen is not None and hasattr(gen, "__next__"):
            list(gen)

    def _send(self, msg):
        self.nmsg += 1
        self._consume(self.ctrl.handle_netqasm_message(self.nmsg, msg))

    def _lenient_out(self, n0):
        """outcome of a subroutine on the recording executor: the faults reported since `n0`"""
        reps = self.e.reports[n0:]
        if not reps:
            return None
        out = {"o": "fault", "cls": reps[0][0], "line": reps[0][1]}
        if len(reps) > 1:
            out = {"o": "fault-repeated", "n": len(reps), "cls": reps[0][0], "line": reps[0][1]}
        return out

    def do(self, o):
        self.select(o)
        e = self.e
        k = o["k"]
        if k == "init":
            try:
                if self.msg:
                    self._send(InitNewAppMessage(app_id=o["a"], max_qubits=o["n"]))
                else:
                    e.init_new_application(app_id=o["a"], max_qubits=o["n"])
                return {"fault": None}
            except Exception as ex:
                return {"fault": {"cls": type(ex).__name__}}
        if k == "stop":
            try:
                if self.msg:
                    self._send(StopAppMessage(app_id=o["a"]))
                else:
                    self._consume(e.stop_application(app_id=o["a"]))
                return {"fault": None}
            except Exception as ex:
                return {"fault": {"cls": type(ex).__name__}}
        if k == "reserve":
            q = e._get_unused_physical_qubit()
            self.reserved.add(q)
            return {"q": q}
        if k == "keep":
            sid = e._get_new_subroutine_id()
            e._subroutines[sid] = Subroutine(instructions=[], app_id=o["a"])
            data = EprCmdData(subroutine_id=sid, ent_results_array_address=0, q_array_address=o["qa"],
                              request=None, tot_pairs=1, pairs_left=1)
            resp = LinkLayerOKTypeK(logical_qubit_id=o["p"])
            try:
                handled = e._handle_epr_ok_k_response(epr_cmd_data=data, response=resp, pair_index=0)
            except Exception as ex:
                return {"fault": {"cls": type(ex).__name__}, "deferred": False}
            finally:
                e._subroutines.pop(sid, None)
            if handled:
                self.reserved.discard(o["p"])
            return {"fault": None, "deferred": not handled}
        if k == "sub":
            instrs = [build(j) for j in o["p"]]
            sub = Subroutine(instructions=instrs, app_id=o["a"])
            e.outcomes = list(o.get("or", []))
            e.fuel, e.steps, e.visited, e.last_pc = o["fuel"], 0, [], None
            n0 = len(e.events)
            nrep = len(e.reports)
            sid = e._next_subroutine_id
            try:
                if self.msg:
                    self._send(SubroutineMessage(subroutine=sub))
                else:
                    list(e.execute_subroutine(sub))
                out = self._lenient_out(nrep) or {"o": "halted"}
                pc = e.last_pc
            except StepLimit:
                out = self._lenient_out(nrep) or {"o": "fuel"}
                pc = e._program_counters.get(sid)
            except Exception as ex:
                cls, line = _exc(ex)
                out = {"o": "fault", "cls": cls, "line": line}
                pc = e._program_counters.get(sid)
            finally:
                e.fuel = None
            return {"out": out, "pc": pc, "visited": list(e.visited), "trace": e.events[n0:]}
        if k == "spawn":
            self.subs.append({"a": o["a"], "p": o["p"], "gen": None, "sid": None, "done": False})
            return {"id": len(self.subs) - 1}
        if k == "tick":
            return self.tick(o)
        if k == "hooktick":
            e.hook_armed = True
            try:
                return self.tick(o)
            finally:
                e.hook_armed = False
        if k == "abort":
            return self.abort(o)
        raise ValueError(k)

    def abort(self, o):
        """the runtime drops a suspended subroutine: between two instructions (`mid` false) or at the
        first yield point it reaches when resumed (`mid` true; inside `qfree` that is the reset hook)"""
        e = self.e
        if o["i"] >= len(self.subs):
            return {"o": "none", "trace": []}
        sb = self.subs[o["i"]]
        if sb["done"]:
            return {"o": "done", "trace": []}
        n0 = len(e.events)
        e.fuel, e.last_pc = None, None
        r = {"o": "aborted"}
        try:
            if o.get("mid"):
                if sb["gen"] is None:
                    self._start(sb)
                next(sb["gen"])            # up to the next yield point of ANY kind
            if sb["gen"] is not None:
                sb["gen"].close()
        except StopIteration:
            pass
        except Exception as ex:
            cls, line = _exc(ex)
            r = {"o": "fault", "cls": cls, "line": line}
        sb["done"] = True
        r["trace"] = e.events[n0:]
        return r

    def _start(self, sb):
        e = self.e
        sub = Subroutine(instructions=[build(j) for j in sb["p"]], app_id=sb["a"])
        sb["sid"] = e._next_subroutine_id
        if self.msg:
            # message route: the controller's handler generator for a SUBROUTINE message; the runtime
            # may handle a second message while this one is suspended at a yield point
            self.nmsg += 1
            sb["gen"] = self.ctrl.handle_netqasm_message(self.nmsg, SubroutineMessage(subroutine=sub))
        else:
            sb["gen"] = e.execute_subroutine(sub)
        self._to_pre(sb["gen"])      # starts the subroutine, parks before instruction 0

    @staticmethod
    def _to_pre(gen):
        """resume a subroutine until it is parked before its next instruction"""
        while next(gen) != PRE:
            pass

    def tick(self, o):
        e = self.e
        if o["i"] >= len(self.subs):
            return {"o": "none", "trace": []}
        sb = self.subs[o["i"]]
        if sb["done"]:
            return {"o": "done", "trace": []}
        if "or" in o:
            e.outcomes = list(o["or"])
        e.fuel, e.last_pc = None, None
        n0 = len(e.events)
        try:
            nrep = len(e.reports)
            if sb["gen"] is None:
                self._start(sb)
            self._to_pre(sb["gen"])          # one instruction, then parks before the next one
            r = {"o": "live", "pc": e._program_counters.get(sb["sid"])}
            if len(e.reports) > nrep:        # recording executor: a fault was reported yet it goes on
                r = dict(self._lenient_out(nrep), o="fault-repeated", pc=r["pc"])
        except StopIteration:
            sb["done"] = True
            r = dict(self._lenient_out(nrep) or {"o": "halted"}, pc=e.last_pc)
        except Exception as ex:
            sb["done"] = True
            cls, line = _exc(ex)
            r = {"o": "fault", "cls": cls, "line": line, "pc": e._program_counters.get(sb["sid"])}
        r["trace"] = e.events[n0:]
        return r


def run_real(sc, observers=()):
    """-> list of {"r":…, "st":…}; the list is cut where a Skip guard fired."""
    real = Real(sc)
    outs = []
    try:
        for idx, o in enumerate(sc["ops"]):
            real.select(o)
            for ob in observers:
                ob.before(real, idx, o)
            try:
                r = real.do(o)
            except Skip:
                break
            st = real.dump()
            outs.append({"r": r, "st": st})
            for ob in observers:
                ob.after(real, idx, o, r, st)
    finally:
        real.close()
    return outs


def strip_model(step):
    """drop the model-only detail (fine fault kind) before comparing"""
    s = copy.deepcopy(step)
    r = s["r"]
    if isinstance(r.get("fault"), dict):
        r["fault"].pop("kind", None)
    if isinstance(r.get("out"), dict):
        r["out"].pop("kind", None)
    if r.get("o") == "fault":
        r.pop("kind", None)
    return s


def first_diff(a, b, path=""):
    if type(a) != type(b):
        return path, a, b
    if isinstance(a, dict):
        for k in sorted(set(a) | set(b)):
            if k not in a or k not in b:
                return f"{path}.{k}", a.get(k), b.get(k)
            d = first_diff(a[k], b[k], f"{path}.{k}")
            if d:
                return d
        return None
    if isinstance(a, list):
        if len(a) != len(b):
            return path + ".len", a if len(a) < 30 else len(a), b if len(b) < 30 else len(b)
        for i, (x, y) in enumerate(zip(a, b)):
            d = first_diff(x, y, f"{path}[{i}]")
            if d:
                return d
        return None
    return None if a == b else (path, a, b)


def compare(sc, driver, observers=()):
    """-> (real_outs, model_outs, diff or None). diff = (op index, path, model, code)"""
    real = run_real(sc, observers)
    try:
        ans = driver.call({"op": "exec.scenario", "hw": bool(sc["hw"]), "apps": sc["apps"], "nex": sc.get("nex", 1),
                           "addrs": sc["addrs"], "ops": sc["ops"][:len(real)]})
    except RuntimeError as ex:
        if "driver died" not in str(ex):
            raise
        # The real run is cut (Skip guard) before any array longer than MAX_ARRAY is created, so the
        # model is only ever asked to allocate one when the two executions have already diverged.
        driver.close()
        driver.__init__()
        return real, [], (max(len(real) - 1, 0), ".model-ran-out-of-memory (array size the real run never reached)",
                          None, None)
    if "steps" not in ans:
        raise RuntimeError("driver rejected scenario: %r" % (ans,))
    model = ans["steps"]
    for i, rs in enumerate(real):
        if i >= len(model) or model[i].get("guard"):
            # the model would allocate an array the real run never created (the real run is cut before
            # any array longer than MAX_ARRAY): the two executions have already diverged
            return real, model[:i], (i, ".model-array-guard", "array longer than the guard", "not reached")
        d = first_diff(strip_model(model[i]), rs)
        if d:
            return real, model, (i, d[0], d[1], d[2])
    return real, model, None


# ---------------------------------------------------------------- model-free oracles

class InvariantObserver:
    """C13 statement evaluated directly on the real executor after every operation."""

    def __init__(self):
        self.failures = []
        self.snap = None
        self.checked = 0
        self.env_ok = True  # every keep-response so far delivered a physical id the link layer held

    @staticmethod
    def _apps(real):
        e = real.e
        return set(e._qubit_unit_modules) | set(e._registers) | set(e._app_arrays) | set(e._shared_memories)

    @staticmethod
    def _snap_app(real, a):
        e = real.e
        sm = e._shared_memories.get(a)
        return copy.deepcopy({
            "regs": {n.value: dict(g._register) for n, g in e._registers.get(a, {}).items()},
            "arrays": dict(e._app_arrays[a]._arrays) if a in e._app_arrays else None,
            "shmRegs": {n.value: dict(g._register) for n, g in sm._registers.items()} if sm else None,
            "shmArrays": dict(sm._arrays._arrays) if sm else None,
            "unit": e._qubit_unit_modules.get(a)})

    def before(self, real, idx, o):
        if o["k"] == "keep" and o["p"] not in real.reserved:
            self.env_ok = False
        self.snap = {a: self._snap_app(real, a) for a in self._apps(real)}
        self.used0 = set(real.e._used_physical_qubit_addresses)
        self.shm0 = {a: id(sm) for a, sm in real.e._shared_memories.items()}

    def fail(self, what, idx, o, **kw):
        self.failures.append({"what": what, "op_index": idx, "op": o, **kw})

    def after(self, real, idx, o, r, st):
        e = real.e
        self.checked += 1
        # (1) no two allocated virtual qubits share a physical qubit
        seen = {}
        for a, um in e._qubit_unit_modules.items():
            for v, p in enumerate(um):
                if p is None:
                    continue
                if p in seen and self.env_ok:
                    self.fail("two virtual qubits map to the same physical qubit", idx, o,
                              physical=p, first=seen[p], second=[a, v])
                seen[p] = [a, v]
        # (2) used = mapped ∪ reserved (reserved = handed to the link layer, not yet delivered)
        used = set(e._used_physical_qubit_addresses)
        if self.env_ok and used != set(seen) | set(real.reserved):
            self.fail("set of used physical qubits differs from the set currently mapped", idx, o,
                      used=sorted(used), mapped=sorted(seen), reserved=sorted(real.reserved))
        # (3) per-application tables agree on which applications exist
        keysets = [set(e._qubit_unit_modules), set(e._registers), set(e._app_arrays), set(e._shared_memories)]
        if any(k != keysets[0] for k in keysets):
            self.fail("per-application tables disagree on the registered applications", idx, o,
                      tables=[sorted(k) for k in keysets])
        # (4) isolation: an operation of application a leaves every other application unchanged
        a = o.get("a")
        if o["k"] in ("tick", "hooktick", "abort"):  # the application whose subroutine was resumed / dropped
            a = real.subs[o["i"]]["a"] if o["i"] < len(real.subs) else None
        for b, before in self.snap.items():
            if o["k"] in ("reserve", "spawn") or b != a:
                now = self._snap_app(real, b)
                if now != before:
                    self.fail("operation of one application changed another application's state", idx, o,
                              other_app=b)
        faulted = isinstance(r.get("fault"), dict)
        # (5) a rejected life-cycle operation leaves the state unchanged
        if o["k"] in ("init", "stop") and faulted:
            now = {x: self._snap_app(real, x) for x in self._apps(real)}
            shm = {x: id(sm) for x, sm in e._shared_memories.items()}
            if now != self.snap or used != self.used0 or shm != self.shm0:
                self.fail("rejected %s changed the executor state" % o["k"], idx, o)
        # (6) stop releases qubits and memory; a stopped / never registered id can be registered
        if o["k"] == "stop" and not faulted:
            mine = [p for p in (self.snap.get(a, {}).get("unit") or []) if p is not None]
            if any(p in used for p in mine) or a in self._apps(real):
                self.fail("stop_application left qubits or memory of the application behind", idx, o,
                          still_used=[p for p in mine if p in used])
        if o["k"] == "stop" and faulted and a in self.snap:
            self.fail("stopping a running application was refused: its qubits and memory are not released", idx, o,
                      error=r["fault"], still_used=[p for p in (self.snap[a].get("unit") or []) if p is not None])
        if o["k"] == "init" and faulted and a not in self.snap:
            self.fail("registering an application id that is not running was rejected", idx, o,
                      error=r["fault"])
        if o["k"] == "init" and not faulted and a in self.snap:
            self.fail("second registration of a running application id was accepted", idx, o)


def _instr_regs(j):
    """(registers read strictly — an undefined value must make the instruction fault —, register written)
    of a JSON instruction; registers as (bank, index)"""
    m, x = j[0], j[1:]

    def r(k):
        return (x[k], x[k + 1])
    if m in ("set", "lea"):
        return [], r(0)
    if m == "load":
        return [r(3)], r(0)
    if m == "store":
        return [r(0), r(3)], None
    if m == "undef":
        return [r(1)], None
    if m == "array":
        return [r(0)], None
    if m in AR:
        return [r(2), r(4)], r(0)
    if m in ARM:
        return [r(2), r(4), r(6)], r(0)
    if m in ("blt", "bge"):
        return [r(0), r(2)], None
    if m in ("ret_reg", "qalloc", "qfree"):
        return [r(0)], None
    if m == "meas":
        return [r(0)], r(2)
    kind = m.partition(":")[0]
    if kind in ("q1", "rot"):
        return [r(0)], None
    if kind in ("q2", "crot"):
        return [r(0), r(2)], None
    return [], None      # jmp, ret_arr, bez/bnz/beq/bne (comparisons with an undefined value do not fault)


class FreshObserver:
    """"Stopping an application releases all of its memory so that the same id can be registered again":
    the classical state of a (re-)registered application is fresh and its own.  Model-free, from the
    executed instructions only: (a) an instruction that strictly reads a register which no instruction
    of this application has written since its registration must fault (read-before-write never yields
    a value of a predecessor); (b) every register written since the registration holds a value in the
    application's own register table.  Tracked over whole-subroutine operations; a tick of a
    subroutine in flight makes the bookkeeping of that application unknown until it registers again."""

    def __init__(self):
        self.failures = []
        self.defined = {}     # (executor, app) -> set of registers written since registration, or None

    def before(self, real, idx, o):
        pass

    def after(self, real, idx, o, r, st):
        ex, k = o.get("ex", 0), o["k"]
        if k == "init" and not isinstance(r.get("fault"), dict):
            self.defined[(ex, o["a"])] = set()
        elif k == "stop" and not isinstance(r.get("fault"), dict):
            self.defined.pop((ex, o["a"]), None)
        elif k in ("tick", "hooktick", "abort"):
            a = real.subs[o["i"]]["a"] if o["i"] < len(real.subs) else None
            if (ex, a) in self.defined:
                self.defined[(ex, a)] = None
        elif k == "keep" and (ex, o["a"]) in self.defined:
            pass
        elif k == "sub":
            key = (ex, o["a"])
            d = self.defined.get(key)
            if d is None or real.lenient:
                return
            out, visited, prog = r["out"], r["visited"], o["p"]
            for n, pcv in enumerate(visited):
                kk = pcv if pcv >= 0 else pcv + len(prog)
                if not 0 <= kk < len(prog):
                    return
                faulted = out["o"] != "halted" and out["o"] != "fuel" and n == len(visited) - 1
                reads, w = _instr_regs(prog[kk])
                if not faulted:
                    und = [q for q in reads if q not in d]
                    if und:
                        self.failures.append({
                            "what": "a register read before any write since the application was registered yielded "
                                    "a value (classical state of a re-registered application is not fresh)",
                            "op_index": idx, "app": o["a"], "line": pcv, "instruction": render(prog[kk]),
                            "register": "%s%d" % ("RCQM"[und[0][0]], und[0][1])})
                        self.defined[key] = None
                        return
                    if w is not None:
                        d.add(w)
            e = real.e
            table = e._registers.get(o["a"])
            if table is not None:
                for (b, i) in sorted(d):
                    if table[RegisterName(b)]._register.get(i) is None:
                        self.failures.append({
                            "what": "a register written by the application is not in its own register table "
                                    "(writes go somewhere else)", "op_index": idx, "app": o["a"],
                            "register": "%s%d" % ("RCQM"[b], i)})
                        self.defined[key] = None
                        return


class ReturnObserver:
    """C04 `ret_arr` clause, model-free: the host-visible array equals the value it had when it
    was last returned (shared memory holds a copy)."""

    def __init__(self):
        self.failures = []

    def before(self, real, idx, o):
        pass

    def after(self, real, idx, o, r, st):
        e = real.e
        for (a, ad), val in list(e.returned.items()):
            sm = e._shared_memories.get(a)
            if sm is None:
                e.returned.pop((a, ad))
                continue
            cur = sm._arrays._arrays.get(ad)
            if cur is not None and list(cur) != val:
                self.failures.append({"what": "host-visible array changed without ret_arr", "op_index": idx,
                                      "app": a, "address": ad, "returned": val, "visible": list(cur)})
                e.returned[(a, ad)] = list(cur)


# ---------------------------------------------------------------- generators

BIG = [2147483647, -2147483648, 2147483648, -2147483649, 1 << 40, -(1 << 35)]


class Gen:
    def __init__(self, rng, hw=False, encodable=False):
        self.rng = rng
        self.hw = hw
        self.encodable = encodable  # every operand must survive the binary encoding (msg mode)
        n_hot = rng.choice([2, 3, 4, 6])
        self.hot = [(rng.randrange(4), rng.randrange(16)) for _ in range(n_hot)]
        self.addrs = [0, 1, 2] if rng.random() < 0.8 else [0, 1, rng.choice([7, 2147483647, -1, 1 << 33])]
        if encodable:
            self.addrs = [0, 1, 2]

    def reg(self):
        r = self.rng
        if r.random() < 0.85:
            return list(r.choice(self.hot))
        return [r.randrange(4), r.randrange(16)]

    def val(self):
        r = self.rng
        if getattr(self, "small", False):
            return r.randrange(0, 6) if r.random() < 0.6 else r.randrange(-6, 45)
        x = r.random()
        if x < 0.55:
            return r.randrange(0, 6)
        if x < 0.8:
            return r.randrange(-6, 45)
        if x < 0.9:
            v = r.choice(BIG)
            if self.encodable:
                v = max(-2147483648, min(2147483647, v))
            return v
        return r.randrange(-1000, 1000)

    def addr(self):
        return self.rng.choice(self.addrs)

    def target(self, n):
        r = self.rng
        x = r.random()
        if x < 0.8:
            return r.randrange(0, n + 1)
        if x < 0.9:
            return r.randrange(-n - 2, n + 4)
        return r.choice([-1, n, n + 1, -n, -n - 1])

    def instr(self, n, weights=None):
        r = self.rng
        kinds = ["set", "set", "set", "load", "store", "store", "lea", "undef", "array", "add", "sub", "addm",
                 "subm", "bez", "bnz", "beq", "bne", "blt", "bge", "jmp", "ret_reg", "ret_arr", "qalloc",
                 "qfree", "meas", "q1", "rot", "q2"]
        if CROT:
            kinds.append("crot")
        k = r.choice(weights or kinds)
        if k == "set":
            return ["set"] + self.reg() + [self.val()]
        if k in ("load", "store"):
            return [k] + self.reg() + [self.addr()] + self.reg()
        if k == "lea":
            return ["lea"] + self.reg() + [self.addr()]
        if k == "undef":
            return ["undef", self.addr()] + self.reg()
        if k == "array":
            return ["array"] + self.reg() + [self.addr()]
        if k in AR:
            return [k] + self.reg() + self.reg() + self.reg()
        if k in ARM:
            return [k] + self.reg() + self.reg() + self.reg() + self.reg()
        if k in BR1:
            return [k] + self.reg() + [self.target(n)]
        if k in BR2:
            return [k] + self.reg() + self.reg() + [self.target(n)]
        if k == "jmp":
            return ["jmp", self.target(n)]
        if k in ("ret_reg", "qalloc", "qfree"):
            return [k] + self.reg()
        if k == "ret_arr":
            return ["ret_arr", self.addr()]
        if k == "meas":
            return ["meas"] + self.reg() + self.reg()
        if k == "q1":
            return ["q1:" + r.choice(sorted(Q1))] + self.reg()
        if k == "rot":
            return ["rot:" + r.choice(sorted(ROT))] + self.reg() + [r.randrange(0, 32), r.randrange(0, 8)]
        if k == "q2":
            return ["q2:" + r.choice(sorted(Q2))] + self.reg() + self.reg()
        return ["crot:" + r.choice(sorted(CROT))] + self.reg() + self.reg() + [r.randrange(0, 32), r.randrange(0, 8)]

    def program(self, weights=None):
        r = self.rng
        n = r.choice([1, 2, 3, 5, 8, 12, 18, 25])
        prog = []
        if r.random() < 0.75:  # prologue: define some hot registers, declare arrays
            for h in self.hot:
                if r.random() < 0.7:
                    v = r.choice([0, 1, 2, 3, 5, 40, r.randrange(0, 41)]) if r.random() < 0.7 else self.val()
                    prog.append(["set", h[0], h[1], v])
            for ad in self.addrs:
                if r.random() < 0.5:
                    prog.append(["array"] + list(r.choice(self.hot)) + [ad])
        n_total = len(prog) + n
        prog += [self.instr(n_total, weights) for _ in range(n)]
        return prog

    def c04_scenario(self):
        r = self.rng
        nsub = r.choice([1, 1, 2, 3, 4])
        ops = [{"k": "init", "a": 0, "n": r.choice([0, 1, 2, 2, 3, 4])}]
        for _ in range(nsub):
            ops.append({"k": "sub", "a": 0 if r.random() < 0.97 else 1, "p": self.program(),
                        "fuel": r.choice([40, 120]),
                        "or": [r.choice([0, 1, 1, 0, 2147483648, -1]) for _ in range(r.randrange(4))]})
        return {"hw": self.hw, "apps": [0], "addrs": sorted(set(self.addrs)), "ops": ops}

    def alloc_scenario(self):
        """qalloc/qfree bookkeeping inside ONE application: several qubit registers, frees in
        non-LIFO order (holes in the physical pool), re-allocation, spread over several subroutines,
        mostly legal (a shadow set of allocated virtual ids steers the choice), sometimes not."""
        r = self.rng
        n = r.choice([2, 3, 4, 4])
        ops = [{"k": "init", "a": 0, "n": n}]
        alloc = set()
        qregs = [(2, i) for i in r.sample(range(16), 3)]
        for _ in range(r.choice([1, 2, 3, 4])):
            prog = []
            for _ in range(r.choice([3, 5, 8, 12])):
                x = r.random()
                q = list(r.choice(qregs))
                free = [v for v in range(n) if v not in alloc]
                if x < 0.45 and free:
                    v = r.choice(free)
                    prog += [["set"] + q + [v], ["qalloc"] + q]
                    alloc.add(v)
                elif x < 0.8 and alloc:
                    v = r.choice(sorted(alloc))      # any allocated qubit, not the last one: holes
                    prog += [["set"] + q + [v], ["qfree"] + q]
                    alloc.discard(v)
                elif x < 0.9:
                    v = r.choice([0, 1, n - 1, n, -1, -n])   # possibly illegal
                    prog += [["set"] + q + [v], [r.choice(["qalloc", "qfree"])] + q]
                    alloc = None   # may fault: the shadow set is no longer exact
                else:
                    prog.append(self.instr(len(prog) + 4, ["set", "add", "store", "array", "ret_reg", "meas", "q1"]))
                if alloc is None:
                    break
            ops.append({"k": "sub", "a": 0, "p": prog, "fuel": 120, "or": [r.randrange(2) for _ in range(2)]})
            if alloc is None:
                # finish with an unsteered mix of allocations and frees
                prog = []
                for _ in range(r.choice([4, 8])):
                    q = list(r.choice(qregs))
                    prog += [["set"] + q + [r.randrange(-1, n + 1)], [r.choice(["qalloc", "qfree"])] + q]
                ops.append({"k": "sub", "a": 0, "p": prog, "fuel": 120, "or": []})
                break
        return {"hw": self.hw, "apps": [0], "addrs": sorted(set(self.addrs)), "ops": ops}

    def c13_scenario(self, length, msg=False):
        r = self.rng
        ops = []
        qw = ["set", "set", "qalloc", "qalloc", "qalloc", "qfree", "qfree", "store", "array", "ret_reg",
              "ret_arr", "add", "meas", "q1", "bnz", "load", "undef"]
        self.hot = [(2, 0), (2, 1), (0, 0), (0, 1)]
        self.addrs = [0, 1]
        napps = r.choice([1, 2, 3, 3])
        live = set()
        for _ in range(length):
            x = r.random()
            a = r.randrange(napps)
            dead = [b for b in range(napps) if b not in live]
            if x < 0.22:
                if dead and r.random() < 0.8:
                    a = r.choice(dead)
                ops.append({"k": "init", "a": a, "n": r.choice([1, 2, 3, 4])})
                live.add(a)
                continue
            if live and r.random() < 0.9:
                a = r.choice(sorted(live))
            if x < 0.30:
                ops.append({"k": "stop", "a": a})
                live.discard(a)
            elif x < 0.36 and not msg:
                ops.append({"k": "reserve"})
            elif x < 0.42 and not msg:
                # keep response: virtual address stored in @1[0] by a small subroutine first
                v = r.choice([0, 0, 1, 1, 2, 3, 4, -1, -2])
                ops.append({"k": "sub", "a": a, "fuel": 20, "p": [["set", 0, 0, 1], ["array", 0, 0, 1],
                                                                ["set", 0, 1, v], ["set", 0, 0, 0],
                                                                ["store", 0, 1, 1, 0, 0]], "or": []})
                # physical id: mostly one the stack reserved (filled in by `fix_keeps`), sometimes arbitrary
                ops.append({"k": "keep", "a": a, "qa": 1, "p": None if r.random() < 0.93 else r.randrange(6)})
            else:
                prog = []
                for _ in range(r.choice([1, 2, 3, 5, 8])):
                    if r.random() < 0.5:
                        q = r.choice([0, 0, 1, 1, 2, 3, 4, -1, -5])
                        prog.append(["set", 2, r.randrange(2), q])
                    prog.append(self.instr(12, qw))
                ops.append({"k": "sub", "a": a, "p": prog, "fuel": 60, "or": [r.randrange(2) for _ in range(3)]})
        return {"hw": False, "msg": msg, "apps": list(range(napps)), "addrs": [0, 1], "ops": ops}


def par_scenario(rng, nticks, msg=False, identical=False):
    """2-3 applications, one subroutine of each in flight at the same time (sometimes a second one of
    the same application), advanced one instruction at a time in a random order; life-cycle
    operations and link-layer actions may fall in between."""
    r = rng
    g = Gen(r, encodable=msg)
    g.small = msg
    g.hot = [(2, 0), (2, 1), (0, 0), (0, 1), (0, 2)]
    g.addrs = [0, 1]
    qw = ["set", "set", "set", "qalloc", "qalloc", "qfree", "store", "array", "array", "ret_reg", "ret_arr",
          "add", "meas", "q1", "load", "undef", "lea", "bnz", "jmp"]
    napps = r.choice([2, 2, 3])
    shared_prog = None
    ops = [{"k": "init", "a": a, "n": r.choice([1, 2, 3, 4])} for a in range(napps)]
    apps_of = []
    order = list(range(napps))
    r.shuffle(order)
    for a in order + ([r.randrange(napps)] if r.random() < 0.3 else []):
        prog = []
        if r.random() < 0.85:  # define the hot registers and an array first: longer-lived subroutines
            prog = [["set", 0, 0, r.randrange(3)], ["set", 0, 1, r.randrange(50)], ["set", 0, 2, 3],
                    ["set", 2, 0, 0], ["set", 2, 1, r.choice([0, 1])], ["array", 0, 2, r.randrange(2)]]
        for _ in range(r.choice([3, 5, 8, 12])):
            if r.random() < 0.45:
                prog.append(["set", 2, r.randrange(2), r.choice([0, 0, 1, 1, 2, 3, -1])])
            prog.append(g.instr(20, qw))
        if identical:
            # the applications of a multi-app program send the same (byte-identical) subroutine
            shared_prog = shared_prog or prog
            prog = [list(i) for i in shared_prog]
        ops.append({"k": "spawn", "a": a, "p": prog})
        apps_of.append(a)
    for _ in range(nticks):
        x = r.random()
        if x < 0.90:
            i = r.randrange(len(apps_of)) if r.random() < 0.97 else len(apps_of)
            ops.append({"k": "tick", "i": i})
        elif x < 0.93:
            ops.append({"k": "stop", "a": r.randrange(napps)})
        elif x < 0.96:
            ops.append({"k": "init", "a": r.randrange(napps), "n": r.choice([1, 2, 3])})
        elif x < 0.98:
            ops.append({"k": "reserve"})
        else:
            a = r.randrange(napps)
            ops.append({"k": "spawn", "a": a, "p": [g.instr(6, qw) for _ in range(r.choice([2, 4]))]})
            apps_of.append(a)
    return {"hw": False, "msg": msg, "apps": list(range(napps)), "addrs": [0, 1], "ops": ops}


def multi_scenario(rng, nticks, style="c13"):
    """2-3 executors in ONE process (the nodes of a simulated network), each with its own
    applications and subroutines in flight, advanced one instruction at a time in a random order
    ACROSS executors (so executor A is suspended inside its k-th subroutine while B starts, runs or
    finishes its own k-th)."""
    r = rng
    nex = r.choice([2, 2, 3])
    g = Gen(r)
    g.small = True   # no huge array sizes: after a divergence the model would try to allocate them
    if style == "c13":
        g.hot = [(2, 0), (2, 1), (0, 0), (0, 1), (0, 2)]
        g.addrs = [0, 1]
    qw = ["set", "set", "set", "qalloc", "qalloc", "qfree", "store", "array", "ret_reg", "ret_arr",
          "add", "add", "meas", "q1", "load", "bnz", "jmp"]
    ops, nsubs = [], [0] * nex
    for ex in range(nex):
        for a in range(r.choice([1, 1, 2])):
            ops.append({"k": "init", "ex": ex, "a": a, "n": r.choice([1, 2, 3])})

    def spawn(ex):
        a = r.choice([0, 0, 1])
        if style == "c04":
            prog = g.program()
        else:
            prog = [["set", 0, 0, r.randrange(3)], ["set", 0, 1, 1], ["set", 2, 0, 0]]
            for _ in range(r.choice([4, 8, 12])):
                if r.random() < 0.4:
                    prog.append(["set", 2, r.randrange(2), r.choice([0, 0, 1, 2, -1])])
                prog.append(g.instr(len(prog) + 6, qw))
            prog.append(["add", 0, 0, 0, 0, 0, 1])
            prog.append(["ret_reg", 0, 0])
        ops.append({"k": "spawn", "ex": ex, "a": a, "p": prog})
        nsubs[ex] += 1
    for ex in range(nex):
        spawn(ex)
    for _ in range(nticks):
        ex = r.randrange(nex)
        x = r.random()
        if x < 0.93:
            ops.append({"k": "tick", "ex": ex, "i": r.randrange(nsubs[ex])})
        elif x < 0.97:
            spawn(ex)
        else:
            ops.append({"k": "sub", "ex": ex, "a": 0, "fuel": 30, "or": [], "p": g.program()})
    return {"hw": False, "nex": nex, "apps": [0, 1], "addrs": sorted(set(g.addrs)), "ops": ops}


def abort_scenario(rng, nticks):
    """crash/abort points: subroutines of 2-3 applications in flight; now and then the runtime drops
    one (between instructions, or at the yield point inside its next instruction) or the reset
    hook of the quantum processor raises; afterwards applications are stopped, re-registered and
    allocate again."""
    r = rng
    napps = r.choice([2, 2, 3])
    sizes = [r.choice([2, 3, 4]) for _ in range(napps)]
    ops = [{"k": "init", "a": a, "n": sizes[a]} for a in range(napps)]
    progs = []
    for a in list(range(napps)) + [r.randrange(napps)]:
        n = sizes[a]
        alloc, prog = set(), [["set", 0, 0, 1]]
        for _ in range(r.choice([4, 6, 10])):
            q = [2, r.randrange(3)]
            free = [v for v in range(n) if v not in alloc]
            if free and (not alloc or r.random() < 0.5):
                v = r.choice(free)
                prog += [["set"] + q + [v], ["qalloc"] + q]
                alloc.add(v)
            else:
                v = r.choice(sorted(alloc))
                prog += [["set"] + q + [v], ["qfree"] + q]
                alloc.discard(v)
        ops.append({"k": "spawn", "a": a, "p": prog})
        progs.append(prog)
    for _ in range(nticks):
        i = r.randrange(len(progs))
        x = r.random()
        if x < 0.80:
            ops.append({"k": "tick", "i": i})
        elif x < 0.88:
            ops.append({"k": "abort", "i": i, "mid": True})
        elif x < 0.92:
            ops.append({"k": "abort", "i": i, "mid": False})
        elif x < 0.97:
            ops.append({"k": "hooktick", "i": i})
        else:
            ops.append({"k": "reserve"})
    # afterwards: drop what is still in flight, stop everything, register again, allocate everything
    for i in range(len(progs)):
        if r.random() < 0.5:
            ops.append({"k": "abort", "i": i, "mid": r.random() < 0.5})
    for a in range(napps):
        if r.random() < 0.8:
            ops.append({"k": "stop", "a": a})
            ops.append({"k": "init", "a": a, "n": sizes[a]})
        ops.append({"k": "sub", "a": a, "fuel": 60, "or": [], "p": sum(
            [[["set", 2, 0, v], ["qalloc", 2, 0]] for v in range(sizes[a])], [])})
    return {"hw": False, "apps": list(range(napps)), "addrs": [0], "ops": ops}


def fix_keeps(sc):
    """Environment hypothesis of keep-responses: the physical id delivered is one the link layer holds
    (obtained through `reserve`).  `p: None` is replaced by a currently reserved id, computed by
    running the real executor's own `_get_unused_physical_qubit` results; a keep with nothing reserved
    is preceded by a `reserve`."""
    if not any(o["k"] == "keep" for o in sc["ops"]):
        return sc   # nothing to resolve, no environment hypothesis to police: no dry run needed
    out = []
    for o in sc["ops"]:
        if o["k"] == "keep" and o["p"] is None:
            out.append({"k": "reserve"})
            out.append(dict(o, p=("last",)))
        else:
            out.append(o)
    sc = dict(sc, ops=out)
    # resolve ("last",) by a dry run on the real code
    real = Real(sc)
    last = None
    cut = None
    try:
        for idx, o in enumerate(sc["ops"]):
            if o["k"] == "keep" and o["p"] == ("last",):
                o["p"] = last if last is not None else 0
            if o["k"] == "keep" and o["p"] not in real.reserved:
                cut = idx + 1  # environment hypothesis violated: nothing is compared after this response
            try:
                r = real.do(o)
            except Skip:
                cut = idx
                break
            if cut is not None:
                break
            if o["k"] == "reserve":
                last = r["q"]
    finally:
        real.close()
    if cut is not None:
        sc["ops"] = sc["ops"][:cut]
    return sc


# ---------------------------------------------------------------- shrinking

def shrink(sc, still_fails, budget=400):
    """Greedy delta-debugging: drop ops, drop instructions (retargeting nothing: targets are
    unstructured anyway), simplify values.  `still_fails(sc) -> bool`."""
    cur = json.loads(json.dumps(sc))   # also breaks any aliasing between ops of a hand-written scenario
    spent = [0]

    def ok(c):
        if spent[0] >= budget:
            return False
        spent[0] += 1
        try:
            return bool(still_fails(c))
        except Exception:
            return False

    changed = True
    while changed and spent[0] < budget:
        changed = False
        # drop whole ops (never the first init)
        i = len(cur["ops"]) - 1
        while i >= 0:
            c = copy.deepcopy(cur)
            del c["ops"][i]
            if c["ops"] and ok(c):
                cur, changed = c, True
            i -= 1
        # drop single instructions
        for oi, o in enumerate(cur["ops"]):
            if o["k"] not in ("sub", "spawn"):
                continue
            j = len(o["p"]) - 1
            while j >= 0:
                c = copy.deepcopy(cur)
                del c["ops"][oi]["p"][j]
                if ok(c):
                    cur, changed = c, True
                j -= 1
        # shrink outcome scripts
        for oi, o in enumerate(cur["ops"]):
            if o["k"] == "sub" and o.get("or"):
                c = copy.deepcopy(cur)
                c["ops"][oi]["or"] = []
                if ok(c):
                    cur, changed = c, True
    return cur


def describe(sc):
    lines = []
    for o in sc["ops"]:
        if o["k"] == "sub":
            lines.append(f"sub app={o['a']} fuel={o['fuel']} outcomes={o.get('or', [])}: " +
                         "; ".join(render(j) for j in o["p"]))
        elif o["k"] == "spawn":
            lines.append(f"spawn{' ex=%d' % o['ex'] if 'ex' in o else ''} app={o['a']}: " + "; ".join(render(j) for j in o["p"]))
        else:
            lines.append(" ".join(f"{k}={v}" for k, v in o.items()))
    return lines
