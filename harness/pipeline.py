"""In-process SDK -> bytes -> base Executor pipeline (no hooks in /repo needed).

  conn = PipelineConnection("alice", executor=TraceExecutor(outcomes=[...]), max_qubits=5)
  q = Qubit(conn); q.H(); m = q.measure(); conn.flush(); int(m)

* `PipelineConnection` is a `BaseNetQASMConnection` whose `_commit_serialized_message`
  decodes the bytes with the real `deserialize_host_msg` / `deserialize` and drives the
  real executor, so serialisation is on the path exactly as in production.
* `TraceExecutor` subclasses the real base `Executor`, overriding only its documented
  extension points: it records a gate/measurement trace and takes scripted outcomes.
* `StateVectorExecutor` additionally keeps a numpy state vector over physical qubits.
* `FakeStack` is a recording `BaseNetworkStack`; responses are injected by the caller.
"""
import logging

from vlib import common

common.use_repo()

import numpy as np  # noqa: E402
from netqasm.backend.executor import Executor  # noqa: E402
from netqasm.backend.messages import (  # noqa: E402
    MessageType,
    deserialize_host_msg,
)
from netqasm.backend.network_stack import BaseNetworkStack  # noqa: E402
from netqasm.lang.instr.flavour import NVFlavour, VanillaFlavour  # noqa: E402
from netqasm.lang.parsing.binary import deserialize  # noqa: E402
from netqasm.sdk.connection import (  # noqa: E402
    BaseNetQASMConnection,
    DebugConnection,
    DebugNetworkInfo,
)
from netqasm.sdk.shared_memory import SharedMemoryManager  # noqa: E402

logging.getLogger().setLevel(logging.CRITICAL)
try:
    from netqasm.logging.glob import set_log_level  # noqa: E402

    set_log_level("CRITICAL")
except Exception:  # pragma: no cover
    pass


def reset_globals():
    SharedMemoryManager.reset_memories()
    BaseNetQASMConnection._app_ids.clear()
    try:
        BaseNetQASMConnection._app_names.clear()
    except Exception:
        pass


class FakeStack(BaseNetworkStack):
    def __init__(self):
        self.requests = []  # (remote_node_id, request)
        self.sockets = []

    def put(self, request):
        self.requests.append(request)

    def setup_epr_socket(self, epr_socket_id, remote_node_id, remote_epr_socket_id, timeout=1):
        self.sockets.append((epr_socket_id, remote_node_id, remote_epr_socket_id))

    def get_purpose_id(self, remote_node_id, epr_socket_id):
        return epr_socket_id


class StepLimit(Exception):
    pass


class TraceExecutor(Executor):
    """Real base executor + recording back end."""

    def __init__(self, name="alice", outcomes=None, node_id=0, max_steps=100000, **kw):
        super().__init__(name=name, **kw)
        self._node_id_ = node_id
        self.outcomes = list(outcomes or [])
        self.trace = []  # ("gate", mnemonic, [phys...], angle) / ("meas", phys, outcome) / ("init", phys)
        self.steps = 0
        self.max_steps = max_steps
        self.network_stack = FakeStack()

    @property
    def node_id(self):
        return self._node_id_

    # -- step guard
    def _execute_command(self, subroutine_id, command):
        self.steps += 1
        if self.steps > self.max_steps:
            raise StepLimit()
        return (yield from super()._execute_command(subroutine_id, command))

    # -- quantum back end
    def _next_outcome(self):
        return self.outcomes.pop(0) if self.outcomes else 0

    def _do_meas(self, subroutine_id, q_address):
        pos = self._get_position(subroutine_id=subroutine_id, address=q_address)
        out = self._next_outcome()
        self.trace.append(("meas", q_address, pos, out))
        return out

    def _do_single_qubit_instr(self, instr, subroutine_id, address):
        pos = self._get_position(subroutine_id=subroutine_id, address=address)
        self.trace.append(("g1", instr.mnemonic, address, pos))

    def _do_single_qubit_rotation(self, instr, subroutine_id, address, angle):
        pos = self._get_position(subroutine_id=subroutine_id, address=address)
        self.trace.append(("rot", instr.mnemonic, address, pos, instr.angle_num.value, instr.angle_denom.value))

    def _do_controlled_qubit_rotation(self, instr, subroutine_id, address1, address2, angle):
        p1 = self._get_position(subroutine_id=subroutine_id, address=address1)
        p2 = self._get_position(subroutine_id=subroutine_id, address=address2)
        self.trace.append(("crot", instr.mnemonic, address1, address2, p1, p2,
                           instr.angle_num.value, instr.angle_denom.value))

    def _do_two_qubit_instr(self, instr, subroutine_id, address1, address2):
        p1 = self._get_position(subroutine_id=subroutine_id, address=address1)
        p2 = self._get_position(subroutine_id=subroutine_id, address=address2)
        self.trace.append(("g2", instr.mnemonic, address1, address2, p1, p2))

    def _do_wait(self):
        yield "wait"

    def _wait_to_handle_epr_responses(self):
        return None

    # -- inspection helpers
    def unit_module(self, app_id):
        return list(self._qubit_unit_modules.get(app_id, []))

    def allocated_virtual(self, app_id):
        return sorted(i for i, p in enumerate(self._qubit_unit_modules.get(app_id, [])) if p is not None)


class StateVectorExecutor(TraceExecutor):
    """Keeps a state vector over `n_phys` physical qubits (qubit 0 = most significant)."""

    def __init__(self, n_phys=5, rng=None, **kw):
        super().__init__(**kw)
        self.n = n_phys
        self.state = np.zeros(2 ** n_phys, dtype=complex)
        self.state[0] = 1
        self.rng = rng

    def _apply1(self, U, p):
        psi = self.state.reshape([2] * self.n)
        psi = np.moveaxis(np.tensordot(U, psi, axes=([1], [p])), 0, p)
        self.state = psi.reshape(-1)

    def _apply2(self, U, p1, p2):
        psi = self.state.reshape([2] * self.n)
        U4 = np.asarray(U).reshape(2, 2, 2, 2)
        psi = np.tensordot(U4, psi, axes=([2, 3], [p1, p2]))
        psi = np.moveaxis(psi, [0, 1], [p1, p2])
        self.state = psi.reshape(-1)

    def _do_single_qubit_instr(self, instr, subroutine_id, address):
        super()._do_single_qubit_instr(instr, subroutine_id, address)
        pos = self._get_position(subroutine_id=subroutine_id, address=address)
        if instr.mnemonic == "init":
            self._reset(pos)
        elif instr.mnemonic in ("qalloc", "qfree"):
            pass
        else:
            self._apply1(instr.to_matrix(), pos)

    def _reset(self, pos):
        psi = self.state.reshape([2] * self.n)
        p0 = np.take(psi, 0, axis=pos)
        p1 = np.take(psi, 1, axis=pos)
        n0 = np.linalg.norm(p0)
        keep = p0 if n0 > 1e-9 else p1
        keep = keep / np.linalg.norm(keep)
        new = np.zeros_like(psi)
        idx = [slice(None)] * self.n
        idx[pos] = 0
        new[tuple(idx)] = keep
        self.state = new.reshape(-1)

    def _do_single_qubit_rotation(self, instr, subroutine_id, address, angle):
        super()._do_single_qubit_rotation(instr, subroutine_id, address, angle)
        pos = self._get_position(subroutine_id=subroutine_id, address=address)
        self._apply1(instr.to_matrix(), pos)

    def _do_controlled_qubit_rotation(self, instr, subroutine_id, address1, address2, angle):
        super()._do_controlled_qubit_rotation(instr, subroutine_id, address1, address2, angle)
        p1 = self._get_position(subroutine_id=subroutine_id, address=address1)
        p2 = self._get_position(subroutine_id=subroutine_id, address=address2)
        self._apply2(instr.to_matrix(), p1, p2)

    def _do_two_qubit_instr(self, instr, subroutine_id, address1, address2):
        super()._do_two_qubit_instr(instr, subroutine_id, address1, address2)
        p1 = self._get_position(subroutine_id=subroutine_id, address=address1)
        p2 = self._get_position(subroutine_id=subroutine_id, address=address2)
        self._apply2(instr.to_matrix(), p1, p2)

    def _do_meas(self, subroutine_id, q_address):
        pos = self._get_position(subroutine_id=subroutine_id, address=q_address)
        psi = self.state.reshape([2] * self.n)
        p1 = float(np.sum(np.abs(np.take(psi, 1, axis=pos)) ** 2))
        if self.outcomes:
            out = self.outcomes.pop(0)
        elif self.rng is not None:
            out = 1 if self.rng.random() < p1 else 0
        else:
            out = 1 if p1 > 0.5 else 0
        prob = p1 if out == 1 else 1 - p1
        self.trace.append(("meas", q_address, pos, out, prob))
        if prob < 1e-12:
            raise RuntimeError(f"scripted outcome {out} has probability 0")
        new = np.zeros_like(psi)
        idx = [slice(None)] * self.n
        idx[pos] = out
        new[tuple(idx)] = np.take(psi, out, axis=pos) / np.sqrt(prob)
        self.state = new.reshape(-1)
        return out


class PipelineConnection(BaseNetQASMConnection):
    """Connection that executes every committed message on a real Executor in-process."""

    def __init__(self, app_name="alice", executor=None, flavour=None, node_ids=None, **kwargs):
        self.executor = executor if executor is not None else TraceExecutor(name=app_name)
        self.flavour = flavour
        self.messages = []  # raw bytes of everything committed
        self.subroutines = []  # deserialised subroutines that were executed
        self.yields = []
        self.errors = []
        DebugConnection.node_ids = dict(node_ids or {app_name: 0, "bob": 1, "charlie": 2})
        kwargs.setdefault("node_name", self.executor._name)
        super().__init__(app_name, **kwargs)

    def _get_network_info(self):
        return DebugNetworkInfo

    def _flavour(self):
        if self.flavour is not None:
            return self.flavour
        from netqasm.sdk.transpile import NVSubroutineTranspiler
        if self._compiler is not None and issubclass(self._compiler, NVSubroutineTranspiler):
            return NVFlavour()
        return VanillaFlavour()

    def _commit_serialized_message(self, raw_msg, block=True, callback=None):
        self.messages.append(raw_msg)
        msg = deserialize_host_msg(raw_msg)
        ex = self.executor
        if msg.TYPE == MessageType.INIT_NEW_APP:
            ex.init_new_application(app_id=msg.app_id, max_qubits=msg.max_qubits)
        elif msg.TYPE == MessageType.OPEN_EPR_SOCKET:
            list(ex.setup_epr_socket(epr_socket_id=msg.epr_socket_id, remote_node_id=msg.remote_node_id,
                                     remote_epr_socket_id=msg.remote_epr_socket_id))
        elif msg.TYPE == MessageType.SUBROUTINE:
            sub = deserialize(msg.subroutine, flavour=self._flavour())
            self.subroutines.append(sub)
            self.run_subroutine(sub)
        elif msg.TYPE == MessageType.STOP_APP:
            list(ex.stop_application(app_id=msg.app_id))
        elif msg.TYPE == MessageType.SIGNAL:
            pass

    def run_subroutine(self, sub):
        """Default: run to completion; a `wait` that cannot proceed is an error."""
        waits = 0
        for y in self.executor.execute_subroutine(sub):
            self.yields.append(y)
            if y == "wait":
                waits += 1
                if self.on_wait() is False or waits > 10000:
                    raise RuntimeError("subroutine blocked on a wait instruction")

    def on_wait(self):
        """Hook: deliver pending link-layer responses; return False if nothing can be done."""
        return False
