"""C09 — real-code side: host operation sequences on the in-process SDK -> bytes -> Executor
pipeline, snapshots in the shape the Lean driver (`qm.run`) produces, model-free oracle,
generators and the shrinker used for known-finding matching.

An operation sequence is a list of dicts (`k` = kind):
  new | gate h | gate2 h h2 | meas h inplace | free h | keep recv n | seq recv n body |
  ctx recv n sequential body | flush | close
Handles are numbered in creation order (EPR operations create n handles each).
"""
from itertools import count

from harness.pipeline import PipelineConnection, TraceExecutor, reset_globals

from netqasm.backend.executor import NotAllocatedError  # noqa: E402
from netqasm.qlink_compat import BellState, LinkLayerOKTypeK  # noqa: E402
from netqasm.sdk.build_types import NVHardwareConfig  # noqa: E402
from netqasm.sdk.epr_socket import EPRSocket  # noqa: E402
from netqasm.sdk.qubit import FutureQubit, Qubit, QubitNotActiveError  # noqa: E402
from netqasm.sdk.transpile import NVSubroutineTranspiler  # noqa: E402


class Blocked(RuntimeError):
    pass


class AllocTraceExecutor(TraceExecutor):
    """Real base executor; records the allocation-relevant events it executes."""

    def __init__(self, **kw):
        super().__init__(**kw)
        self.events = []

    def _allocate_physical_qubit(self, subroutine_id, virtual_address, physical_address=None):
        r = super()._allocate_physical_qubit(subroutine_id, virtual_address, physical_address)
        self.events.append(["A" if physical_address is None else "D", virtual_address])
        return r

    def _free_physical_qubit(self, subroutine_id, address):
        yield from super()._free_physical_qubit(subroutine_id, address)
        self.events.append(["F", address])

    on_request = None

    def _do_create_epr(self, **kw):
        r = super()._do_create_epr(**kw)
        if self.on_request is not None:
            self.on_request()
        return r

    def _do_recv_epr(self, **kw):
        r = super()._do_recv_epr(**kw)
        if self.on_request is not None:
            self.on_request()
        return r

    def _do_meas(self, subroutine_id, q_address):
        r = super()._do_meas(subroutine_id, q_address)
        self.events.append(["U", q_address])
        return r

    def _do_single_qubit_instr(self, instr, subroutine_id, address):
        super()._do_single_qubit_instr(instr, subroutine_id, address)
        self.events.append(["U", address])

    def _do_single_qubit_rotation(self, instr, subroutine_id, address, angle):
        super()._do_single_qubit_rotation(instr, subroutine_id, address, angle)
        self.events.append(["U", address])

    def _do_controlled_qubit_rotation(self, instr, subroutine_id, address1, address2, angle):
        super()._do_controlled_qubit_rotation(instr, subroutine_id, address1, address2, angle)
        self.events.append(["U2", address1, address2])

    def _do_two_qubit_instr(self, instr, subroutine_id, address1, address2):
        super()._do_two_qubit_instr(instr, subroutine_id, address1, address2)
        self.events.append(["U2", address1, address2])


SLOW = 50000  # generation duration (goodness field) that fails min_fidelity_all_at_end=80 (28000 us)
FAST = 100


class QConn(PipelineConnection):
    """Scripted link layer.  `schedule`:
      lazy  - one OK-K response per wait poll, for the oldest open request (the link layer never
              runs ahead of the subroutine)
      burst - up to two responses per wait poll
      eager - all responses of a request as soon as the request is issued (the link layer runs
              ahead; responses whose destination id is still in use are deferred by the
              controller and retried at every wait poll)
    `goodness_plan`: generation durations, one per issued request (default FAST)."""

    bell = 0  # Bell state index of every delivered pair (0 = Phi+)
    bells = None  # optional iterator of Bell state indices
    schedule = "lazy"

    def _open_requests(self):
        ex = self.executor
        for reqs, flag in ((ex._epr_create_requests, 0), (ex._epr_recv_requests, 1)):
            for key, lst in list(reqs.items()):
                for cmd in lst:
                    yield key, flag, cmd

    def _send(self, key, flag, cmd):
        ex = self.executor
        remote, purpose = key
        used = set(ex._used_physical_qubit_addresses) | set(self._promised)
        for p in count(0):
            if p not in used:
                break
        self._promised.append(p)
        b = self.bell if self.bells is None else next(self.bells)
        self._sent[id(cmd)] = self._sent.get(id(cmd), 0) + 1
        ex._handle_epr_response(LinkLayerOKTypeK(
            logical_qubit_id=p, directionality_flag=flag, purpose_id=purpose,
            remote_node_id=remote, bell_state=BellState(b), create_id=0, sequence_number=0,
            goodness=self._goodness.get(id(cmd), FAST)))

    def _deliver(self, limit):
        """send up to `limit` not yet sent responses, oldest request first; returns how many"""
        n = 0
        for key, flag, cmd in list(self._open_requests()):
            while n < limit and self._sent.get(id(cmd), 0) < cmd.tot_pairs:
                self._send(key, flag, cmd)
                n += 1
        return n

    def on_request(self):
        """called by the executor right after a create/recv request was registered"""
        for key, flag, cmd in self._open_requests():
            if id(cmd) not in self._goodness:
                self._goodness[id(cmd)] = self.goodness_plan.pop(0) if self.goodness_plan else FAST
                self._keep.append(cmd)
        if self.schedule == "eager":
            self._deliver(10 ** 6)

    def on_wait(self):
        ex = self.executor
        handled0 = sum(1 for e in ex.events if e[0] == "D")
        pend0 = len(ex._pending_epr_responses)
        sent = 0
        if not ex._pending_epr_responses or self.schedule != "lazy":
            sent = self._deliver({"lazy": 1, "burst": 2, "eager": 10 ** 6}[self.schedule])
        if ex._pending_epr_responses:
            ex._handle_pending_epr_responses()
        handled1 = sum(1 for e in ex.events if e[0] == "D")
        # physical ids promised to responses that have been handled are now really in use
        self._promised = [p for p in self._promised if p not in ex._used_physical_qubit_addresses]
        if handled1 == handled0 and sent == 0:
            ex._pending_epr_responses.clear()
            raise Blocked("no response can be handled" if pend0 else "nothing to deliver")
        return True


GATES1 = ["H", "X", "Z", "T", "S", "K", "Y", "rot"]


def _gate1(q, sel):
    g = GATES1[sel % len(GATES1)]
    if g == "rot":
        q.rot_Z(n=3, d=2)
    else:
        getattr(q, g)()


def canon_events(evs):
    """merge consecutive uses into one sorted set"""
    out = []
    for e in evs:
        if e[0] in ("U", "U2"):
            ids = set(e[1:])
            if out and out[-1][0] == "U":
                out[-1][1] = sorted(set(out[-1][1]) | ids)
            else:
                out.append(["U", sorted(ids)])
        else:
            out.append([e[0], e[1]])
    return out


def classify_fault(e):
    msg = str(e)
    if isinstance(e, Blocked):
        return "fault:blocked"
    if isinstance(e, NotAllocatedError):
        return "fault:notalloc"
    if isinstance(e, IndexError):
        return "fault:range"
    if isinstance(e, ValueError) and "outside the unit module" in msg:
        return "fault:range"
    if isinstance(e, RuntimeError) and "already allocated" in msg:
        return "fault:double"
    if isinstance(e, RuntimeError) and "cannot be freed" in msg:
        return "fault:notalloc"
    if isinstance(e, RuntimeError) and "blocked on a wait" in msg:
        return "fault:blocked"
    return "error:" + type(e).__name__ + ":" + msg[:80]


FATAL = ("assertion", "invalid")


def is_fatal(r):
    return r in FATAL or r.startswith("fault:") or r.startswith("error:")


def _flag(b, ty):
    """the boolean argument `b` written as a value of another type that compares equal:
    py: bool; int: 0/1; np: numpy.bool_; none: None for False (where the parameter is optional)"""
    if ty == "int":
        return int(b)
    if ty == "np":
        import numpy
        return numpy.bool_(b)
    if ty == "none":
        return True if b else None
    return bool(b)


def _num(n, ty):
    # numbers stay Python ints: a numpy integer as `number`/`max_tries` is refused up front by
    # the type assertions of Array / the instruction operands (no state is touched)
    return int(n)


class Session:
    """One connection (with its own executor, socket and handles) of a process."""

    def __init__(self, cfg, name="alice", peer="bob", node_id=0, bell=0, bells=None, schedule="lazy"):
        n = cfg["maxq"]
        self.cfg = cfg
        self.ex = ex = AllocTraceExecutor(name=name, node_id=node_id)
        kw = {}
        if cfg["nv"]:
            kw["hardware_config"] = NVHardwareConfig(n)
        if cfg["transp"]:
            kw["compiler"] = NVSubroutineTranspiler
        self.sock = EPRSocket(peer)
        self.conn = conn = QConn(name, executor=ex, max_qubits=n, epr_sockets=[self.sock],
                                 node_ids={name: node_id, peer: 1 - node_id}, **kw)
        conn.bell = bell
        conn.bells = bells
        conn.schedule = schedule
        conn.goodness_plan = []
        conn._goodness, conn._sent, conn._promised, conn._keep = {}, {}, [], []
        ex.on_request = conn.on_request
        self.mm = mm = conn.builder._mem_mgr
        self.handles = handles = []
        self.seen = seen = set()
        self.open_ctx = None
        # handles that are created *and* released inside one operation (the placeholders of EPR
        # loop constructs) are seen at activation time; instance-level wrap, no hook in /repo
        _activate = mm.activate_qubit

        def activate_qubit(q):
            if id(q) not in seen and not isinstance(q, FutureQubit):
                seen.add(id(q))
                handles.append(q)
            _activate(q)

        mm.activate_qubit = activate_qubit

    def _collect(self):
        for q in self.mm._active_qubits:
            if id(q) not in self.seen and not isinstance(q, FutureQubit):
                self.seen.add(id(q))
                self.handles.append(q)

    @staticmethod
    def _body_fn(body):
        def f(q):
            for g in range(body["g"]):
                _gate1(q, g)
            if body["c"] == "meas":
                q.measure()
            elif body["c"] == "free":
                q.free()
            elif body["c"] == "inplace":
                q.measure(inplace=True)
            # "none": gates only, the pair stays alive
        return f

    def do(self, idx, op):
        """executes one operation; returns (snapshot, oracle notes)"""
        conn, ex, sock, handles, mm = self.conn, self.ex, self.sock, self.handles, self.mm
        # the connection class keeps the node table of the most recently created connection
        k = op["k"]
        ty = op.get("ty", "py")
        r = "ok"
        ev_start = len(ex.events)
        released = None
        notes = []
        try:
            if k in ("gate", "gate2", "meas", "free") and (
                    op["h"] >= len(handles) or (k == "gate2" and op["h2"] >= len(handles))):
                r = "invalid"
            elif k == "new":
                Qubit(conn)
            elif k == "gate":
                _gate1(handles[op["h"]], op.get("g", 0))
            elif k == "gate2":
                a, b = handles[op["h"]], handles[op["h2"]]
                (a.cnot if op.get("g", 0) % 2 == 0 else a.cphase)(b)
            elif k == "meas":
                q = handles[op["h"]]
                vid = q.qubit_id
                kw = {}
                if "store" in op:
                    kw["store_array"] = _flag(op["store"], ty if ty != "none" else "py")
                q.measure(inplace=_flag(op["inplace"], ty), **kw)
                if not op["inplace"]:
                    released = vid
            elif k == "free":
                q = handles[op["h"]]
                vid = q.qubit_id
                q.free()
                released = vid
            elif k == "keep":
                (sock.recv_keep if op["recv"] else sock.create_keep)(number=_num(op["n"], ty))
                conn.goodness_plan.append(FAST)
            elif k == "keepr":
                (sock.recv_keep if op["recv"] else sock.create_keep)(
                    number=_num(op["n"], ty), min_fidelity_all_at_end=_num(80, ty), max_tries=_num(op["tries"], ty))
                conn.goodness_plan += [SLOW] * min(op["fails"], op["tries"]) + ([FAST] if op["fails"] < op["tries"] else [])
            elif k == "seqr":
                f = self._body_fn(op["body"])
                (sock.recv_keep if op["recv"] else sock.create_keep)(
                    number=_num(op["n"], ty), sequential=_flag(True, ty), post_routine=lambda c, q, pair: f(q),
                    min_fidelity_all_at_end=_num(80, ty), max_tries=_num(op["tries"], ty))
                conn.goodness_plan += [SLOW] * min(op["fails"], op["tries"]) + ([FAST] if op["fails"] < op["tries"] else [])
            elif k == "seq":
                f = self._body_fn(op["body"])
                (sock.recv_keep if op["recv"] else sock.create_keep)(
                    number=_num(op["n"], ty), sequential=_flag(True, ty), post_routine=lambda c, q, pair: f(q))
                conn.goodness_plan.append(FAST)
            elif k == "postk":
                f = self._body_fn(op["body"])
                (sock.recv_keep if op["recv"] else sock.create_keep)(
                    number=_num(op["n"], ty), post_routine=lambda c, q, pair: f(q))
                conn.goodness_plan.append(FAST)
            elif k in ("ctx", "ctx_open"):
                f = self._body_fn(op["body"])
                cm = (sock.recv_context if op["recv"] else sock.create_context)(
                    number=_num(op["n"], ty), sequential=_flag(op["sequential"], ty if ty != "none" else "py"))
                if k == "ctx":
                    with cm as (q, pair):
                        f(q)
                    conn.goodness_plan.append(FAST)
                else:
                    q, pair = cm.__enter__()
                    self.open_ctx = cm
                    f(q)
            elif k == "ctx_close":
                cm, self.open_ctx = self.open_ctx, None
                cm.__exit__(None, None, None)
                conn.goodness_plan.append(FAST)
            elif k == "flush":
                conn.flush()
            elif k == "close":
                conn.close()
            else:
                raise KeyError(k)
        except QubitNotActiveError:
            r = "notactive"
        except AssertionError as e:
            # (inside the retry-loop block the loop's own `finally:` assertion masks a ValueError)
            r = "valueerror" if isinstance(e.__context__, ValueError) else "assertion"
        except UnboundLocalError as e:
            # create_context/recv_context: the `finally:` clause runs after the AssertionError of
            # `_create_ent_qubits` and trips over its own unbound locals
            # (or after the ValueError of the argument check)
            if isinstance(e.__context__, AssertionError):
                r = "assertion"
            elif isinstance(e.__context__, ValueError):
                r = "valueerror"
            else:
                r = "error:UnboundLocalError"
        except Exception as e:  # noqa: BLE001
            if k in ("flush", "close"):
                r = classify_fault(e)
            elif isinstance(e, ValueError) and k in ("keep", "seq", "postk", "ctx", "ctx_open", "keepr", "seqr"):
                r = "valueerror"
            else:
                r = "error:" + type(e).__name__ + ":" + str(e)[:80]
        self._collect()
        try:
            hsnap = [[int(q.qubit_id), bool(q.active)] for q in handles]
        except Exception as e:  # noqa: BLE001
            hsnap = "error:" + type(e).__name__
        u = ex.allocated_virtual(conn.app_id) if conn.app_id in ex._qubit_unit_modules else []
        evs = canon_events(ex.events[ev_start:]) if k in ("flush", "close") else []
        snap = {"r": r, "h": hsnap, "ev": evs, "u": u}
        # ---- model-free oracle
        if is_fatal(r) and r != "invalid":
            notes.append((idx, r))
        if released is not None and r == "ok":
            try:
                if mm.is_qubit_id_used(released):
                    notes.append((idx, f"id {released} still reserved after release"))
            except Exception as e:  # noqa: BLE001
                notes.append((idx, "is_qubit_id_used raised " + type(e).__name__))
        if k == "flush" and r == "ok":
            try:
                sdk = sorted(int(q.qubit_id) for q in conn.active_qubits)
            except Exception as e:  # noqa: BLE001
                sdk = "error:" + type(e).__name__
            if sdk != u:
                notes.append((idx, f"after flush SDK active ids {sdk} != controller {u}"))
        if k == "close" and r == "ok":
            if len(conn.active_qubits) != 0 or u != []:
                notes.append((idx, "after close: active qubits left"))
        return snap, notes


def run_real(cfg, ops, bell=0, bells=None, schedule="lazy"):
    """Returns (snapshots, oracle_notes).  A snapshot is {"r","h","ev","u"} as in the model;
    oracle_notes is a list of (op index, text) where the model-free oracle is violated."""
    reset_globals()
    ses = Session(cfg, bell=bell, bells=bells, schedule=schedule)
    snaps, notes = [], []
    for idx, op in enumerate(ops):
        snap, ns = ses.do(idx, op)
        snaps.append(snap)
        notes += ns
        if is_fatal(snap["r"]):
            break
    return snaps, notes


def run_real2(cfgs, ops, schedule="lazy"):
    """Two connections (alice on node 0, bob on node 1; two executors) in one process; every
    operation carries "c": 0|1.  A context block may be split into `ctx_open` (enter the `with`
    and build the body) and `ctx_close` (leave it), so that the other connection can act — and
    open a block of its own — in between.  Returns (snapshots per op, notes)."""
    reset_globals()
    ses = [Session(cfgs[0], "alice", "bob", 0, schedule=schedule),
           Session(cfgs[1], "bob", "alice", 1, schedule=schedule)]
    snaps, notes = [], []
    for idx, op in enumerate(ops):
        snap, ns = ses[op["c"]].do(idx, op)
        snaps.append(snap)
        notes += ns
        if is_fatal(snap["r"]):
            break
    return snaps, notes


def project(ops, c):
    """the history of connection c alone, with split context blocks re-joined; returns
    (ops, for each op its index in the joint history)"""
    out, at = [], []
    pend = None
    for i, o in enumerate(ops):
        if o["c"] != c:
            continue
        o = {k: v for k, v in o.items() if k != "c"}
        if o["k"] == "ctx_open":
            pend = o
        elif o["k"] == "ctx_close":
            out.append(dict(pend, k="ctx"))
            at.append(i)
            pend = None
        else:
            out.append(o)
            at.append(i)
    return out, at


def canon_model(snaps):
    out = []
    for s in snaps:
        out.append({"r": s["r"], "h": s["h"], "ev": canon_events(s["ev"]), "u": s["u"]})
    return out


# ---------------------------------------------------------------- programs


def created(op):
    k = op["k"]
    if k == "new":
        return 1
    if k in ("keep", "seq", "postk", "ctx", "keepr", "seqr"):
        return op["n"]
    return 0


def analyse(cfg, ops):
    """Model-free shadow of the host program: is it well formed (gates/measurements on live,
    distinct handles) and within the budget of the property statement?  Returns
    (well_formed, in_budget, peak)."""
    limit = cfg["maxq"] - (1 if cfg["nv"] or cfg["transp"] else 0)
    alive = []  # per handle
    wf = True
    peak = 0

    def cnt():
        return sum(1 for a in alive if a)

    for op in ops:
        k = op["k"]
        if k == "new":
            alive.append(True)
        elif k == "gate":
            if op["h"] >= len(alive) or not alive[op["h"]]:
                wf = False
        elif k == "gate2":
            if op["h"] >= len(alive) or op["h2"] >= len(alive) or op["h"] == op["h2"] or \
                    not alive[op["h"]] or not alive[op["h2"]]:
                wf = False
        elif k == "meas":
            if op["h"] >= len(alive):
                wf = False
            elif alive[op["h"]] and not op["inplace"]:
                alive[op["h"]] = False
        elif k == "free":
            if op["h"] >= len(alive):
                wf = False
            elif alive[op["h"]]:
                alive[op["h"]] = False
        elif k in ("keep", "keepr"):
            if op["n"] > cfg["maxq"]:
                if k == "keepr":
                    wf = False  # the argument check fires inside the retry loop block
                continue  # rejected by the SDK, nothing happens
            if k == "keepr" and op["fails"] >= op["tries"]:
                wf = False  # the request never succeeds: the returned handles are void
            alive.extend([True] * op["n"])
        elif k == "seqr":
            peak = max(peak, cnt() + 1)
            alive.extend([False] * op["n"])
        elif k in ("seq", "ctx", "postk"):
            if k in ("ctx", "postk") and not op.get("sequential", False) and op["n"] > cfg["maxq"]:
                continue
            # the pairs are consumed inside the loop; sequential: one at a time
            single = cfg["nv"] or cfg["transp"] or cfg["maxq"] == 1
            one_id = k == "seq" or op.get("sequential", False) or single
            transient = 1 if one_id else op["n"]
            peak = max(peak, cnt() + transient)
            if op["body"]["c"] in ("meas", "free"):
                alive.extend([False] * op["n"])  # consumed inside the loop
            else:
                # the pairs stay alive; all pairs in ONE id is only possible for a single pair
                if one_id and op["n"] > 1:
                    wf = False
                alive.extend([True] * op["n"])
        elif k == "close":
            alive = [False] * len(alive)
        peak = max(peak, cnt())
    return wf, peak <= limit, peak


def remove_op(ops, i):
    """ops without ops[i]; handle references are re-numbered, ops on removed handles dropped"""
    base = sum(created(o) for o in ops[:i])
    m = created(ops[i])
    out = []
    for j, o in enumerate(ops):
        if j == i:
            continue
        o = dict(o)
        drop = False
        for key in ("h", "h2"):
            if key in o and j > i:
                if base <= o[key] < base + m:
                    drop = True
                elif o[key] >= base + m:
                    o[key] -= m
        if not drop:
            out.append(o)
    return out


def shrink(ops, fails, budget=300):
    """greedy one-op-at-a-time delta debugging; `fails(ops)` is evaluated on the real code"""
    cur = list(ops)
    changed = True
    while changed and budget > 0:
        changed = False
        for i in range(len(cur) - 1, -1, -1):
            cand = remove_op(cur, i)
            budget -= 1
            if budget <= 0:
                break
            if fails(cand):
                cur = cand
                changed = True
                break
    return cur


def random_ops(rng, cfg, length, loops=True, over_budget=False):
    """mostly well-formed random history"""
    limit = cfg["maxq"] - (1 if cfg["nv"] or cfg["transp"] else 0)
    if over_budget:
        limit = cfg["maxq"] + 1
    alive = []
    ops = []

    def live():
        return [i for i, a in enumerate(alive) if a]

    for _ in range(length):
        lv = live()
        room = limit - len(lv)
        choices = ["flush"] * 2
        if room >= 1:
            choices += ["new"] * 4 + ["keep"] * 2 + ["keepr"]
            if loops:
                choices += ["seq", "ctx", "seqr", "postk", "ctx"]
        if lv:
            choices += ["gate"] * 2 + ["measd"] * 3 + ["measi", "free", "free"]
        if len(lv) >= 2:
            choices += ["gate2"] * 2
        if rng.random() < 0.04:
            choices += ["bad"]
        k = rng.choice(choices)
        if k == "new":
            ops.append({"k": "new"})
            alive.append(True)
        elif k == "gate":
            ops.append({"k": "gate", "h": rng.choice(lv), "g": rng.randrange(8)})
        elif k == "gate2":
            a, b = rng.sample(lv, 2)
            ops.append({"k": "gate2", "h": a, "h2": b, "g": rng.randrange(2)})
        elif k in ("measd", "measi"):
            h = rng.choice(lv)
            ops.append({"k": "meas", "h": h, "inplace": k == "measi"})
            if rng.random() < 0.4:
                ops[-1]["ty"] = rng.choice(["int", "np", "none"])
            if rng.random() < 0.3:
                ops[-1]["store"] = rng.random() < 0.5
            if k == "measd":
                alive[h] = False
        elif k == "free":
            h = rng.choice(lv)
            ops.append({"k": "free", "h": h})
            alive[h] = False
        elif k == "keep":
            n = rng.randint(1, max(1, min(room, 3)))
            ops.append({"k": "keep", "recv": rng.random() < 0.5, "n": n})
            alive.extend([True] * n)
        elif k == "keepr":
            n = min(cfg["maxq"], rng.randint(1, max(1, min(room, 3))))
            tries = rng.randint(1, 3)
            ops.append({"k": "keepr", "recv": rng.random() < 0.5, "n": n, "tries": tries,
                        "fails": rng.randrange(tries)})
            alive.extend([True] * n)
        elif k == "seqr":
            n = rng.randint(1, 3)
            tries = rng.randint(1, 3)
            ops.append({"k": "seqr", "recv": rng.random() < 0.5, "n": n, "tries": tries,
                        "fails": rng.randrange(tries),
                        "body": {"g": rng.randrange(3), "c": rng.choice(["meas", "free"])}})
            if rng.random() < 0.35:
                ops[-1]["ty"] = rng.choice(["int", "np"])
            alive.extend([False] * n)
        elif k == "postk":
            single = cfg["nv"] or cfg["transp"] or cfg["maxq"] == 1
            keepit = rng.random() < 0.5
            n = 1 if (single and keepit) else rng.randint(1, max(1, min(room, 3)))
            ops.append({"k": "postk", "recv": rng.random() < 0.5, "n": n,
                        "body": {"g": rng.randrange(3), "c": rng.choice(["inplace", "none"] if keepit else ["meas", "free"])}})
            alive.extend([keepit] * n)
        elif k == "seq":
            keepit = rng.random() < 0.3
            n = 1 if keepit else rng.randint(1, 3)
            ops.append({"k": "seq", "recv": rng.random() < 0.5, "n": n,
                        "body": {"g": rng.randrange(3), "c": rng.choice(["inplace", "none"] if keepit else ["meas", "free"])}})
            if rng.random() < 0.35:
                ops[-1]["ty"] = rng.choice(["int", "np"])
            alive.extend([keepit] * n)
        elif k == "ctx":
            single = cfg["nv"] or cfg["transp"] or cfg["maxq"] == 1
            sq = rng.random() < 0.5
            keepit = rng.random() < 0.35
            if keepit and (sq or single):
                n = 1
            else:
                n = rng.randint(1, 3 if sq else max(1, min(room, 3)))
            ops.append({"k": "ctx", "recv": rng.random() < 0.5, "n": n, "sequential": sq,
                        "body": {"g": rng.randrange(3), "c": rng.choice(["inplace", "none"] if keepit else ["meas", "free"])}})
            if rng.random() < 0.35:
                ops[-1]["ty"] = rng.choice(["int", "np"])
            alive.extend([keepit] * n)
        elif k == "flush":
            ops.append({"k": "flush"})
        elif k == "bad" and alive:
            h = rng.randrange(len(alive))
            ops.append(rng.choice([{"k": "meas", "h": h, "inplace": False}, {"k": "free", "h": h},
                                   {"k": "gate", "h": h, "g": 0},
                                   {"k": "keep", "recv": False, "n": cfg["maxq"] + 1}]))
            if ops[-1]["k"] in ("meas", "free"):
                alive[h] = False
    ops.append({"k": "flush"})
    if rng.random() < 0.5:
        ops.append({"k": "close"})
    return ops


def random_ops2(rng, cfgs, length):
    """two per-connection histories merged at random; context blocks are split into open/close
    with probability 1/2 so that the other connection acts (and opens blocks) in between"""
    streams = []
    for c in (0, 1):
        ops = random_ops(rng, cfgs[c], length, loops=True)
        if rng.random() < 0.7:
            # a context block right at the start (always inside the budget), later handles shift
            n = rng.randint(1, 2)
            for o in ops:
                for key in ("h", "h2"):
                    if key in o:
                        o[key] += n
            ops.insert(0, {"k": "ctx", "recv": rng.random() < 0.5, "n": n, "sequential": True,
                           "body": {"g": rng.randrange(2), "c": rng.choice(["meas", "free"])}})
        out = []
        for o in ops:
            if o["k"] == "ctx" and rng.random() < 0.6:
                out.append(dict(o, k="ctx_open"))
                out.append({"k": "ctx_close"})
            else:
                out.append(o)
        streams.append(out)
    merged = []
    pos = [0, 0]
    while pos[0] < len(streams[0]) or pos[1] < len(streams[1]):
        avail = [c for c in (0, 1) if pos[c] < len(streams[c])]
        # while a block is open on one connection, mostly let the other one act
        opened = [c for c in avail if pos[c] > 0 and streams[c][pos[c] - 1]["k"] == "ctx_open"]
        others = [c for c in avail if c not in opened]
        c = rng.choice(others) if (opened and others and rng.random() < 0.75) else rng.choice(avail)
        merged.append(dict(streams[c][pos[c]], c=c))
        pos[c] += 1
    return merged
