"""Host-program stream for C05 / C14 (SDK control flow, classical data flow, register discipline).

A *host program* is a JSON AST (the same one `Driver/Sdk.lean` reads):

  top   ::= stmt | {"k":"flush"}
  stmt  ::= {"k":"arr","len":n,"init":null|[int|null..]}             conn.new_array
          | {"k":"reg","v":int}                                      builder.new_register      (binds handle)
          | {"k":"qop","g":[gate..],"t":tgt}                         q=Qubit(conn); gates; q.measure(..)
          | {"k":"addf","f":FUT,"o":VAL,"m":int|null}                Future.add
          | {"k":"addr","h":n,"o":VAL,"m":int|null}                  RegFuture.add
          | {"k":"if","cb":bool,"c":cond,"a":VAL,"b":VAL,"body":[..]} conn.if_xx(a,b,fn) / with a.if_xx(b)
          | {"k":"loop","s":..,"e":..,"d":..,"body":[..]["r":i]}     with conn.loop(..[, loop_register=R<i>]) as i   (binds raw handle)
          | {"k":"lbody",...}                                        conn.loop_body(fn,..)     (binds RegFuture handle)
          | {"k":"foreach","arr":a,"idx":bool,"body":[..]}           arr.foreach()/enumerate() (binds raw handle)
          | {"k":"until","n":max,"body":[..],"ef":VAL,"ev":int,"cl":[..]}  conn.loop_until     (binds RegFuture handle)
          | {"k":"try","n":..,"body":[..]}                           conn.try_until_success
  tgt   ::= {"k":"new"} | {"k":"fut","f":FUT} | {"k":"reg"}          (reg binds a RegFuture handle)
  FUT   ::= {"a":addr,"i":n} | {"a":addr,"h":handle} | {"a":addr,"f":FUT}
  VAL   ::= {"v":int} | {"f":FUT} | {"h":handle}

Arrays are named by their address (= creation order), register handles by creation order
at build time.  Three interpreters of this AST live here:

* `RealRun`   — through the real SDK API (+ optionally the real Executor via harness.pipeline)
* `Direct`    — a direct evaluation of the program written from the property statement (oracle)
* the Lean model `emit` is reached through the driver op `sdk.run`.
"""
import copy
import json

from harness import pipeline as P

from netqasm.lang.ir import BranchLabel, ICmd  # noqa: E402
from netqasm.lang.operand import Address, ArrayEntry, Label, Register  # noqa: E402
from netqasm.sdk.constraint import ValueAtMostConstraint  # noqa: E402
from netqasm.sdk.futures import Array, BaseFuture, Future, RegFuture  # noqa: E402
from netqasm.sdk.qubit import Qubit  # noqa: E402

GATES = "XYZHSKT"
CONDS = ["eq", "ne", "lt", "ge", "ez", "nz"]

# ----------------------------------------------------------------------------- canonical commands


def canon_op(o):
    if isinstance(o, Register):
        return {"r": [o.name.value, o.index]}
    if isinstance(o, Label):
        return {"l": o.name}
    if isinstance(o, Address):
        return {"a": o.address}
    if isinstance(o, ArrayEntry):
        a = o.address.address if isinstance(o.address, Address) else o.address
        if isinstance(o.index, Register):
            return {"er": [a, o.index.name.value, o.index.index]}
        if type(o.index) is int:
            return {"e": [a, o.index]}
        return {"bad": type(o.index).__name__}
    if type(o) is int:
        return {"v": o}
    return {"bad": type(o).__name__}


def canon_cmd(c):
    if isinstance(c, BranchLabel):
        return {"l": c.name}
    assert isinstance(c, ICmd)
    d = {"i": c.instruction.name.lower(), "o": [canon_op(o) for o in c.operands]}
    if c.args:
        d["args"] = list(c.args)
    return d


class BadHandle(Exception):
    pass


def err_kind(e):
    # the SDK's context managers raise again from their `finally` blocks (UnboundLocalError,
    # AssertionError): the exception that started it is at the end of the __context__ chain
    seen = 0
    while getattr(e, "__context__", None) is not None and seen < 50:
        e = e.__context__
        seen += 1
    s = str(e)
    if isinstance(e, BadHandle):
        return "badHandle"
    if isinstance(e, RuntimeError) and "available loop register" in s:
        return "noRegister"
    if isinstance(e, RuntimeError) and "M-registers" in s:
        return "noMeasRegister"
    if isinstance(e, (TypeError, AttributeError, NotImplementedError)):
        return "typeError"
    if isinstance(e, AssertionError):
        return "assertion"
    if isinstance(e, (ValueError, KeyError)):
        return "regState"
    return "other:" + type(e).__name__ + ":" + s[:80]


# ----------------------------------------------------------------------------- the real SDK


def _registers_of(cmds):
    """names of all registers occurring in a list of proto commands / assembled instructions"""
    out = set()

    def walk(x, depth=0):
        if isinstance(x, Register):
            out.add(str(x))
        elif isinstance(x, (list, tuple)):
            for y in x:
                walk(y, depth)
        elif depth < 3 and hasattr(x, "__dict__") and not isinstance(x, (int, str)):
            for v in vars(x).values():
                walk(v, depth + 1)
    for c in cmds:
        walk(getattr(c, "operands", []))
    return out


class RealRun:
    """Interpret a host program through the real SDK API.

    execute=False: every flush pops the proto-subroutine and resets the builder (no controller).
    execute=True : the proto-subroutine is committed: assembled, serialised, deserialised and run
                   on the real base Executor (harness.pipeline) with scripted outcomes.
    """

    def __init__(self, execute=False, outcomes=None, max_steps=60000, hw=None):
        P.reset_globals()
        self.ex = P.TraceExecutor(outcomes=list(outcomes or []), max_steps=max_steps)
        if hw is None:
            self.sock = None
            self.conn = P.PipelineConnection("alice", executor=self.ex)
        else:  # programs with EPR operations (C14): an EPR socket and the requested hardware
            from harness import sdk_epr as E
            from netqasm.sdk.epr_socket import EPRSocket
            self.sock = EPRSocket("bob")
            self.conn = P.PipelineConnection("alice", executor=self.ex, epr_sockets=[self.sock], **E.hardware(hw))
        self.b = self.conn.builder
        self.mm = self.b._mem_mgr
        self.execute = execute
        self.arrays = []  # address -> Array object
        self.regs = []  # handle -> ("rf"|"raw", object)
        self.futs = {}  # (a, i) -> Future object used by the program (kept: caching is observable)
        self.subs, self.snaps, self.reads = [], [], []
        self.reserved = {}  # flush number -> registers reserved for the assembler (executed runs only)
        self.scratch, self.live = {}, {}  # flush number -> assembler scratch registers / live (active) registers
        self.err = None
        self.exec_err = None
        self.first_exc = None

    # -- handles
    def arr(self, a):
        if not (0 <= a < len(self.arrays)):
            raise BadHandle("array %d" % a)
        return self.arrays[a]

    def reg(self, h):
        if not (0 <= h < len(self.regs)):
            raise BadHandle("register handle %d" % h)
        return self.regs[h]

    def fut(self, f):
        a = f["a"]
        if "i" in f:
            key = (a, f["i"])
            if key not in self.futs:
                if 0 <= a < len(self.arrays):
                    self.futs[key] = self.arrays[a].get_future_index(f["i"])
                else:  # the model does not look at the array for a literal index
                    self.futs[key] = Future(self.conn, address=a, index=f["i"])
            return self.futs[key]
        if "h" in f:
            _, obj = self.reg(f["h"])
            return Future(self.conn, address=a, index=obj)
        return Future(self.conn, address=a, index=self.fut(f["f"]))

    def val(self, v):
        if "v" in v:
            return v["v"]
        if "f" in v:
            return self.fut(v["f"])
        return self.reg(v["h"])[1]

    def add_other(self, v):
        if "h" in v:
            kind, obj = self.reg(v["h"])
            if kind == "rf":  # RegFuture as `other` is not supported by the SDK (fails at flush)
                raise TypeError("RegFuture as add operand")
            return obj
        return self.val(v)

    def loop_reg(self, s):
        """explicit `loop_register` argument: absent -> None; even index as str, odd as Register object"""
        r = s.get("r")
        if r is None:
            return None
        if r % 2 == 0:
            return "R%d" % r
        from netqasm.lang.encoding import RegisterName
        return Register(RegisterName.R, r)

    # -- statements
    def block(self, body):
        for s in body:
            self.stmt(s)

    def stmt(self, s):
        try:
            self._stmt(s)
        except Exception as e:
            if self.first_exc is None:
                self.first_exc = e
            raise

    def _stmt(self, s):
        k = s["k"]
        conn = self.conn
        if k == "arr":
            self.arrays.append(conn.new_array(s["len"], init_values=copy.copy(s["init"])))
        elif k == "reg":
            self.regs.append(("rf", self.b.new_register(s["v"])))
        elif k == "qop":
            q = Qubit(conn)
            for g in s["g"]:
                getattr(q, GATES[g])()
            t = s["t"]
            if t["k"] == "new":
                f = q.measure()
                a = f._address
                if self.sock is None:
                    assert a == len(self.arrays)
                if a == len(self.arrays):  # (EPR operations allocate arrays of their own: addresses shift)
                    self.arrays.append(Array(conn, 1, a))
                    self.futs[(a, 0)] = f
            elif t["k"] == "fut":
                q.measure(future=self.fut(t["f"]))
            else:
                m = q.measure(store_array=False)
                self.regs.append(("rf", m))
        elif k == "addf":
            self.fut(s["f"]).add(self.add_other(s["o"]), mod=s["m"])
        elif k == "addr":
            kind, obj = self.reg(s["h"])
            if kind != "rf":
                raise TypeError("add on a raw register")
            obj.add(self.add_other(s["o"]), mod=s["m"])
        elif k == "if":
            c = s["c"]
            a = self.val(s["a"])
            unary = c in ("ez", "nz")
            b = None if unary else self.val(s["b"])
            if s["cb"] or not isinstance(a, BaseFuture):
                fn = getattr(conn, "if_" + c)
                if unary:
                    fn(a, lambda _c: self.block(s["body"]))
                else:
                    fn(a, b, lambda _c: self.block(s["body"]))
            else:
                ctx = getattr(a, "if_" + c)() if unary else getattr(a, "if_" + c)(b)
                with ctx:
                    self.block(s["body"])
        elif k == "loop":
            with conn.loop(s["e"], s["s"], s["d"], self.loop_reg(s)) as i:
                self.regs.append(("raw", i))
                self.block(s["body"])
        elif k == "lbody":
            def body(_c, rf):
                self.regs.append(("rf", rf))
                self.block(s["body"])
            conn.loop_body(body, s["e"], s["s"], s["d"], self.loop_reg(s))
        elif k == "foreach":
            arr = self.arr(s["arr"])
            if s["idx"]:
                with arr.enumerate() as (i, v):
                    self.regs.append(("raw", i))
                    self.block(s["body"])
            else:
                with arr.foreach() as v:
                    self.regs.append(("raw", v._index))
                    self.block(s["body"])
        elif k == "until":
            with conn.loop_until(max_iterations=s["n"]) as loop:
                # the exit condition must exist when the context closes (also on errors)
                loop.set_exit_condition(ValueAtMostConstraint(0, 0))
                self.regs.append(("rf", loop.loop_register))
                self.block(s["body"])
                loop.set_exit_condition(ValueAtMostConstraint(self.val(s["ef"]), s["ev"]))
                if s["cl"]:
                    loop.set_cleanup_code(lambda _c: self.block(s["cl"]))
        elif k == "try":
            with conn.try_until_success(max_tries=s["n"]):
                self.block(s["body"])
        elif k == "epr":
            from harness import sdk_epr as E
            E.run_form(conn, self.sock, s["form"])
        else:
            raise ValueError("unknown statement " + k)

    # -- snapshots / flush
    def snap(self):
        mm = self.mm
        return {
            "active": sorted(r.index for r in mm._active_registers),
            "meas": sorted(r.index for r, u in mm._used_meas_registers.items() if u),
            "rret": [[r.name.value, r.index] for r in mm._registers_to_return],
            "aret": [a.address for a in mm._arrays_to_return],
            "narr": len(mm._used_array_addresses),
        }

    def flush(self):
        proto = self.b.subrt_pop_pending_subroutine()
        if proto is None:
            self.subs.append(None)
            return
        self.subs.append([canon_cmd(c) for c in proto.commands])
        if self.execute:
            import netqasm.sdk.builder as _B
            orig = _B.assemble_subroutine

            def recording(pre, *a, **kw):  # what the builder reserves for the assembler at THIS flush
                rr = kw.get("reserved_registers")
                k = len(self.subs) - 1
                self.reserved[k] = None if rr is None else sorted([r.name.name, r.index] for r in rr)
                before = _registers_of(pre.commands)
                sub = orig(pre, *a, **kw)
                # registers the assembler introduced (scratch for constants) / registers live right now
                self.scratch[k] = sorted(_registers_of(sub.instructions) - before)
                self.live[k] = sorted("R%d" % r.index for r in self.mm._active_registers)
                return sub
            _B.assemble_subroutine = recording
            try:
                self.conn.commit_protosubroutine(proto)
            except Exception as e:  # the controller (or the assembler) rejected the subroutine
                self.exec_err = "%s: %s" % (type(e).__name__, str(e)[:200])
                self.b._reset()
                raise
            finally:
                _B.assemble_subroutine = orig
        else:
            self.b._reset()

    def read_handles(self):
        """What the host sees right now through the program's own handle objects."""
        out = {"arr": {}, "fut": {}, "reg": {}}
        for a, arr in enumerate(self.arrays):
            try:
                out["arr"][a] = [arr[i] for i in range(len(arr))]
            except Exception as e:
                out["arr"][a] = "unreadable:" + type(e).__name__
        for (a, i), f in self.futs.items():
            try:
                out["fut"]["%d,%d" % (a, i)] = f.value
            except Exception as e:
                out["fut"]["%d,%d" % (a, i)] = "unreadable:" + type(e).__name__
        for h, (kind, obj) in enumerate(self.regs):
            if kind == "rf" and obj.reg is not None:
                try:
                    out["reg"][h] = obj.value
                except Exception as e:
                    out["reg"][h] = "unreadable:" + type(e).__name__
        return out

    def fresh_reads(self):
        """The same locations read through brand-new handle objects (no cached value)."""
        out = {"fut": {}, "reg": {}}
        for (a, i) in self.futs:
            try:
                out["fut"]["%d,%d" % (a, i)] = Future(self.conn, address=a, index=i).value
            except Exception as e:
                out["fut"]["%d,%d" % (a, i)] = "unreadable:" + type(e).__name__
        for h, (kind, obj) in enumerate(self.regs):
            if kind == "rf" and obj.reg is not None:
                out["reg"][h] = RegFuture(self.conn, obj.reg).value
        # every entry of every array, through handles asked from the Array AGAIN (what an application does
        # that calls `arr.get_future_index(i)` / `arr.get_future_slice(..)` after each flush)
        out["api"], out["slice"] = {}, {}
        for a, arr in enumerate(self.arrays):
            n = len(arr)
            try:
                out["api"][a] = [arr.get_future_index(i).value for i in range(n)]
            except Exception as e:
                out["api"][a] = "unreadable:" + type(e).__name__
            try:
                out["slice"][a] = [f.value for f in arr.get_future_slice(slice(0, n))]
            except Exception as e:
                out["slice"][a] = "unreadable:" + type(e).__name__
        return out

    def controller_state(self):
        app = self.conn.app_id
        arrays = {}
        for a in range(len(self.arrays)):
            try:
                arrays[a] = list(self.ex._app_arrays[app]._get_array(a))
            except Exception:
                arrays[a] = None
        regs = {}
        for h, (kind, obj) in enumerate(self.regs):
            r = obj.reg if kind == "rf" else obj
            if r is not None:
                try:
                    regs[h] = self.ex._get_register(app, r)
                except Exception:
                    regs[h] = None
        return {"arrays": arrays, "regs": regs}

    def interfere(self):
        """A second, independent connection of the same process ("bob") measures and flushes: it must not
        disturb this connection's half-built subroutine."""
        if getattr(self, "other", None) is None:
            self.other = P.PipelineConnection("bob", executor=P.TraceExecutor(name="bob"))
        Qubit(self.other).measure()
        self.other.flush()

    def run(self, prog, read=False, interfere=False):
        """Returns self; .subs/.snaps/.err filled like the model's RunOut."""
        for step, t in enumerate(prog):
            self.first_exc = None
            if interfere and step > 0:
                self.interfere()
            try:
                if t["k"] == "flush":
                    self.flush()
                    if read:
                        self.reads.append({"host": self.read_handles(), "fresh": self.fresh_reads(),
                                           "ctrl": self.controller_state()})
                else:
                    self.stmt(t)
            except P.StepLimit:
                self.err = [step, "steplimit"]
                return self
            except Exception as e:
                if self.exec_err is not None:
                    self.err = [step, "exec"]
                else:
                    self.err = [step, err_kind(self.first_exc or e)]
                return self
            self.snaps.append(self.snap())
        return self

    def trace(self):
        """Abstract gate/measurement trace of the controller (all on virtual qubit 0)."""
        out = []
        for t in self.ex.trace:
            if t[0] == "g1":
                out.append(["g", t[1], t[2]])
            elif t[0] == "meas":
                out.append(["meas", t[1], t[3]])
            else:
                out.append(list(map(str, t)))
        return out


# ----------------------------------------------------------------------------- direct evaluation


class Invalid(Exception):
    """The program does something the statement does not cover (undefined read, index out of
    range, non-terminating loop, out-of-scope handle, …): not an oracle case."""


def emits(body):
    """Does a block contain any run-time operation?  (A loop / if whose body has none is a no-op.)"""
    for s in body:
        k = s["k"]
        if k in ("reg", "qop", "addf", "addr", "epr"):
            return True
        if k in ("if", "loop", "lbody", "foreach", "until", "try") and emits(s["body"]):
            return True
    return False


class Direct:
    """Direct evaluation of a host program: arrays, register handles, gate trace,
    measurement-outcome oracle.  Written from the property statement and the SDK
    documentation; knows nothing about registers R0..R15, labels or temporaries.

    Host-time effects (array allocation, handle creation) happen once, in program order
    (a body is host code that runs once); run-time effects follow the control flow.
    Arrays created since the last flush are initialised when the segment starts running.
    """

    def __init__(self, outcomes, max_steps=20000):
        self.outcomes = list(outcomes)
        self.arrays = {}  # addr -> list
        self.arr_len = []  # by address
        self.regv = {}  # handle -> value
        self.nh = 0
        self.kind = {}  # handle -> "rf" | "raw"
        self.scope = {}  # handle -> "live" | "dead"
        self.meas_handles_segment = []
        self.trace = []
        self.steps = 0
        self.max_steps = max_steps
        self.views = []

    # -- host-time pass over one segment: numbering + array declarations
    def elaborate(self, body, decls):
        for s in body:
            k = s["k"]
            if k == "arr":
                n = len(s["init"]) if s["init"] is not None else s["len"]
                if n <= 0:
                    raise Invalid("empty array")
                s["_a"] = len(self.arr_len)
                self.arr_len.append(n)
                decls.append((s["_a"], n, s["init"]))
            elif k == "reg":
                s["_h"] = self.new_handle("rf")
            elif k == "qop":
                t = s["t"]["k"]
                if t == "new":
                    s["_a"] = len(self.arr_len)
                    self.arr_len.append(1)
                    decls.append((s["_a"], 1, None))
                elif t == "reg":
                    s["_h"] = self.new_handle("rf")
            elif k in ("loop", "foreach"):
                s["_h"] = self.new_handle("raw")
                self.elaborate(s["body"], decls)
            elif k in ("lbody",):
                s["_h"] = self.new_handle("rf")
                self.elaborate(s["body"], decls)
            elif k == "until":
                s["_h"] = self.new_handle("rf")
                self.elaborate(s["body"], decls)
                if emits(s["body"]):
                    self.elaborate(s["cl"], decls)
            elif k in ("if", "try"):
                self.elaborate(s["body"], decls)

    def new_handle(self, kind):
        h = self.nh
        self.nh += 1
        self.kind[h] = kind
        self.scope[h] = "unborn"
        return h

    # -- run time
    def tick(self):
        self.steps += 1
        if self.steps > self.max_steps:
            raise Invalid("step budget")

    def rd_reg(self, h, need_rf=False):
        if h not in self.kind or self.scope.get(h) != "live":
            raise Invalid("handle %d out of scope" % h)
        if need_rf and self.kind[h] != "rf":
            raise Invalid("raw register used as a value")
        v = self.regv.get(h)
        if v is None:
            raise Invalid("register handle %d undefined" % h)
        return v

    def loc(self, f):
        a = f["a"]
        if a not in self.arrays:
            raise Invalid("array %d not declared" % a)
        if "i" in f:
            i = f["i"]
        elif "h" in f:
            i = self.rd_reg(f["h"])
        else:
            i = self.rd_fut(f["f"])
        if not (0 <= i < len(self.arrays[a])):
            raise Invalid("index %d out of range for array %d" % (i, a))
        return a, i

    def rd_fut(self, f):
        a, i = self.loc(f)
        v = self.arrays[a][i]
        if v is None:
            raise Invalid("undefined entry @%d[%d]" % (a, i))
        return v

    def value(self, v, cond=False):
        if "v" in v:
            return v["v"]
        if "f" in v:
            if cond and "f" in v["f"]:
                raise Invalid("future-indexed future as a condition operand is not supported by the SDK")
            return self.rd_fut(v["f"])
        return self.rd_reg(v["h"], need_rf=cond)

    def add_value(self, v):
        if "h" in v:
            if self.kind.get(v["h"]) == "rf":
                raise Invalid("RegFuture as add operand is not supported by the SDK")
            return self.rd_reg(v["h"])
        return self.value(v)

    @staticmethod
    def check32(x):
        if not (-2 ** 31 <= x < 2 ** 31):
            raise Invalid("value outside 32 bits")
        return x

    def do_add(self, x, y, m):
        if m is None:
            return self.check32(x + y)
        if m < 1:
            raise Invalid("modulus < 1")
        return (x + y) % m

    def cond(self, c, a, b):
        return {"eq": a == b, "ne": a != b, "lt": a < b, "ge": a >= b, "ez": a == 0, "nz": a != 0}[c]

    def block(self, body):
        for s in body:
            self.stmt(s)

    def stmt(self, s):
        self.tick()
        k = s["k"]
        if k == "arr":
            return
        if k == "reg":
            self.scope[s["_h"]] = "live"
            self.regv[s["_h"]] = self.check32(s["v"])
        elif k == "qop":
            self.trace.append(["g", "init", 0])
            for g in s["g"]:
                self.trace.append(["g", GATES[g].lower(), 0])
            o = self.outcomes.pop(0) if self.outcomes else 0
            self.trace.append(["meas", 0, o])
            t = s["t"]
            if t["k"] == "new":
                self.arrays[s["_a"]][0] = o
            elif t["k"] == "fut":
                a, i = self.loc(t["f"])
                self.arrays[a][i] = o
            else:
                self.scope[s["_h"]] = "live"
                self.regv[s["_h"]] = o
                self.meas_handles_segment.append(s["_h"])
        elif k == "addf":
            a, i = self.loc(s["f"])
            x = self.rd_fut(s["f"])
            y = self.add_value(s["o"])
            self.arrays[a][i] = self.do_add(x, y, s["m"])
        elif k == "addr":
            x = self.rd_reg(s["h"], need_rf=True)
            y = self.add_value(s["o"])
            self.regv[s["h"]] = self.do_add(x, y, s["m"])
        elif k == "if":
            if not emits(s["body"]):
                return
            a = self.value(s["a"], cond=True)
            b = 0 if s["c"] in ("ez", "nz") else self.value(s["b"], cond=True)
            if self.cond(s["c"], a, b):
                self.block(s["body"])
        elif k in ("loop", "lbody", "foreach"):
            if not emits(s["body"]):
                return
            h = s["_h"]
            if k == "foreach":
                if s["arr"] >= len(self.arr_len):
                    raise Invalid("foreach over unknown array")
                start, stop, step = 0, self.arr_len[s["arr"]], 1
            else:
                start, stop, step = s["s"], s["e"], s["d"]
            self.scope[h] = "live"
            self.regv[h] = self.check32(start)
            self.check32(stop)
            while self.regv[h] != stop:
                self.tick()
                self.block(s["body"])
                self.regv[h] = self.check32(self.regv[h] + step)
            self.scope[h] = "dead"
        elif k == "until":
            if not emits(s["body"]):
                return
            h = s["_h"]
            self.scope[h] = "live"
            self.regv[h] = 0
            self.check32(s["n"])
            self.check32(s["ev"] + 1)
            while self.regv[h] != s["n"]:
                self.tick()
                self.block(s["body"])
                if self.value(s["ef"], cond=True) <= s["ev"]:
                    break
                self.block(s["cl"])
                self.regv[h] = self.check32(self.regv[h] + 1)
            self.scope[h] = "dead"
        elif k == "try":
            self.block(s["body"])
        else:
            raise Invalid("unknown statement")

    def run(self, prog):
        """prog: top-level list (deep-copied, annotated). Returns list of host views, one per flush."""
        prog = copy.deepcopy(prog)
        i = 0
        while i < len(prog):
            j = i
            while j < len(prog) and prog[j]["k"] != "flush":
                j += 1
            seg = prog[i:j]
            decls = []
            self.elaborate(seg, decls)
            for (a, n, init) in decls:
                self.arrays[a] = list(init) if init is not None else [None] * n
                for v in self.arrays[a]:
                    if v is not None:
                        self.check32(v)
            self.meas_handles_segment = []
            self.block(seg)
            if j < len(prog):
                self.views.append(self.view())
                # measurement registers are recycled by the SDK at every flush
                for h in self.meas_handles_segment:
                    self.scope[h] = "dead"
            i = j + 1
        return self

    def view(self):
        return {
            "arr": {a: list(v) for a, v in self.arrays.items()},
            "reg": {h: self.regv.get(h) for h in self.kind
                    if self.kind[h] == "rf" and self.scope.get(h) == "live"},
        }


# ----------------------------------------------------------------------------- generator


class Gen:
    """Random well-scoped host programs (mostly valid at run time); `wild` drops the scoping care."""

    def __init__(self, rng, max_depth=4, max_stmts=30, wild=False, binders_in_bodies=True):
        self.rng = rng
        self.max_depth = max_depth
        self.budget = max_stmts
        self.wild = wild
        self.act = set()  # simulated active R registers (to pick interesting explicit loop registers)
        self.explicit_p = 0.25  # probability that a loop / loop_body names its register
        self.allow_active = False  # explicit register that is in use (the SDK must reject it)
        self.arrs = []  # {"len":n, "defd":bool, "small":bool}
        self.regs = []  # {"kind":"rf"/"raw", "live":bool, "hi":exclusive upper bound of values or None, "loopvar":bool}
        self.binders_in_bodies = binders_in_bodies

    # -- pieces
    def pick_arr(self, pred=lambda a: True):
        c = [i for i, a in enumerate(self.arrs) if pred(a)]
        return self.rng.choice(c) if c else None

    def index_for(self, a, depth=0):
        """An index expression that stays inside array `a` (best effort)."""
        rng = self.rng
        n = self.arrs[a]["len"]
        opts = ["lit"] * 3
        live = [h for h, r in enumerate(self.regs) if r["live"] and r["hi"] is not None and r["hi"] <= n]
        if live:
            opts += ["h"] * 3
        small = [i for i, x in enumerate(self.arrs) if x["defd"] and x["small"] and x["maxv"] < n]
        if small and depth < 2:
            opts += ["f"]
        o = rng.choice(opts)
        if o == "lit":
            return {"a": a, "i": rng.randrange(n)}
        if o == "h":
            return {"a": a, "h": rng.choice(live)}
        return {"a": a, "f": self.index_for(rng.choice(small), depth + 1)}

    def fut_read(self):
        a = self.pick_arr(lambda x: x["defd"])
        if a is None:
            return None
        return self.index_for(a)

    def fut_write(self):
        a = self.pick_arr(lambda x: True)
        if a is None:
            return None
        return self.index_for(a)

    def val(self, cond=False):
        rng = self.rng
        opts = ["v"]
        if any(x["defd"] for x in self.arrs):
            opts += ["f"] * 3
        rf = [h for h, r in enumerate(self.regs) if r["live"] and r["kind"] == "rf"]
        if rf:
            opts += ["h"] * 2
        o = rng.choice(opts)
        if o == "f":
            f = self.fut_read()
            if cond and "f" in f:
                f = {"a": f["a"], "i": rng.randrange(self.arrs[f["a"]]["len"])}
            return {"f": f}
        if o == "h":
            return {"h": rng.choice(rf)}
        return {"v": rng.choice([0, 0, 1, 1, 2, 3, -1, rng.randrange(-3, 6)])}

    def add_other(self):
        rng = self.rng
        opts = ["v", "v"]
        if any(x["defd"] for x in self.arrs):
            opts += ["f", "f"]
        raw = [h for h, r in enumerate(self.regs) if r["live"] and r["kind"] == "raw"]
        if raw:
            opts += ["h"]
        o = rng.choice(opts)
        if o == "f":
            return {"f": self.fut_read()}
        if o == "h":
            return {"h": rng.choice(raw)}
        return {"v": rng.choice([0, 1, 1, 2, 3, -1, 5])}

    def take(self, explicit=None):
        r = explicit if explicit is not None else next((i for i in range(16) if i not in self.act), None)
        if r is not None:
            self.act.add(r)
        return r

    def pick_explicit(self):
        """None (SDK chooses) or an explicit register: the lowest free one, another free one, or —
        only when allowed — one that is in use."""
        rng = self.rng
        if rng.random() >= self.explicit_p:
            return None
        free = [i for i in range(16) if i not in self.act]
        if not free:
            return None
        mode = rng.choice(["lowest", "lowest", "free", "active" if self.allow_active else "free"])
        if mode == "lowest":
            return free[0]
        if mode == "active" and self.act:
            return rng.choice(sorted(self.act))
        return rng.choice(free)

    def new_reg(self, kind, hi=None, loopvar=False):
        self.regs.append({"kind": kind, "live": True, "hi": hi, "loopvar": loopvar})
        return len(self.regs) - 1

    # -- statements
    def stmt(self, depth, in_body, no_binders=False):
        rng = self.rng
        self.budget -= 1
        kinds = ["qop"] * 4 + ["addf"] * 3 + ["addr"] * 2 + ["if"] * 4
        if not no_binders:
            kinds += ["arr"] * 3 + ["reg"] * 1
        if depth < self.max_depth and self.budget > 0 and not no_binders:
            kinds += ["loop", "lbody", "foreach", "until"] * 2 + ["try"]
        for _ in range(20):
            k = rng.choice(kinds)
            s = self.make(k, depth, in_body, no_binders)
            if s is not None:
                return s
        return {"k": "qop", "g": [rng.randrange(7)], "t": {"k": "new"}} if not no_binders else \
            {"k": "if", "cb": True, "c": "ez", "a": {"v": 1}, "b": {"v": 0}, "body": []}

    def body(self, depth, no_binders=False, allow_empty=True):
        rng = self.rng
        n = rng.choice([0, 1, 1, 2, 2, 3]) if allow_empty else rng.choice([1, 1, 2, 3])
        out = []
        idx = [h for h, r in enumerate(self.regs) if r["live"] and r["kind"] == "rf" and r["loopvar"]]
        if idx and any(x["defd"] for x in self.arrs) and self.rng.random() < 0.3:
            # branch on the index of the innermost enclosing loop_body / loop_until, then use a temporary
            f1, f2 = self.fut_read(), self.fut_read()
            out.append({"k": "if", "cb": self.rng.random() < 0.5, "c": self.rng.choice(["ez", "nz"]),
                        "a": {"h": idx[-1]}, "b": {"v": 0},
                        "body": [{"k": "addf", "f": f1, "o": {"v": 1}, "m": 2 if self.arrs[f1["a"]]["small"] else 5}]})
            out.append({"k": "addf", "f": f2, "o": {"v": 1}, "m": 2 if self.arrs[f2["a"]]["small"] else 7})
        for _ in range(n):
            if self.budget <= 0:
                break
            out.append(self.stmt(depth, True, no_binders))
        return out

    def make(self, k, depth, in_body, no_binders):
        rng = self.rng
        if k == "arr":
            n = rng.choice([1, 2, 2, 3, 4, 5])
            mode = rng.choice(["none", "vals", "vals", "equal", "equal", "partial", "small"])
            if mode == "none":
                init, defd, small, maxv = None, False, False, 0
            elif mode == "vals":
                init = [rng.randrange(-2, 6) for _ in range(n)]
                defd, small, maxv = True, False, 0
            elif mode == "small":
                init = [rng.randrange(0, 2) for _ in range(n)]
                defd, small, maxv = True, True, 1
            elif mode == "equal":
                v = rng.randrange(0, 4)
                init = [v] * n
                defd, small, maxv = True, False, 0
            else:
                init = [rng.choice([None, rng.randrange(0, 4)]) for _ in range(n)]
                defd, small, maxv = all(x is not None for x in init), False, 0
            self.arrs.append({"len": n, "defd": defd, "small": small, "maxv": maxv})
            return {"k": "arr", "len": n if init is None else rng.choice([n, 1, 7]), "init": init}
        if k == "reg":
            if in_body:
                return None  # a register created in a branch that is not taken cannot be returned
            if sum(1 for r in self.regs if r["kind"] == "rf" and not r["loopvar"] and r["hi"] is None and r["live"]) >= 3:
                return None
            v = rng.randrange(0, 4)
            self.new_reg("rf")
            self.take()
            return {"k": "reg", "v": v}
        if k == "qop":
            g = [rng.randrange(7) for _ in range(rng.choice([0, 1, 1, 2]))]
            t = rng.choice(["new", "fut", "fut", "reg"] if not no_binders else ["fut"])
            if t == "fut":
                f = self.fut_write()
                if f is None:
                    return None
                # a measured entry becomes defined only if the statement surely runs: keep flags as they are
                return {"k": "qop", "g": g, "t": {"k": "fut", "f": f}}
            if t == "new":
                self.arrs.append({"len": 1, "defd": not in_body, "small": True, "maxv": 1})
                return {"k": "qop", "g": g, "t": {"k": "new"}}
            if in_body:
                return None  # an M handle set under a condition may stay undefined
            self.new_reg("rf", hi=2)
            self.regs[-1]["meas"] = True
            return {"k": "qop", "g": g, "t": {"k": "reg"}}
        if k == "addf":
            f = self.fut_read()
            if f is None:
                return None
            if self.arrs[f["a"]]["small"]:
                m = 2
            else:
                m = rng.choice([None, None, 3, 5, 7])
            return {"k": "addf", "f": f, "o": self.add_other(), "m": m}
        if k == "addr":
            rf = [h for h, r in enumerate(self.regs) if r["live"] and r["kind"] == "rf" and not r["loopvar"]]
            if not rf:
                return None
            h = rng.choice(rf)
            m = 2 if self.regs[h]["hi"] == 2 else rng.choice([None, None, 3, 5])
            return {"k": "addr", "h": h, "o": self.add_other(), "m": m}
        if k == "if":
            c = rng.choice(CONDS)
            a = self.val(cond=True)
            b = self.val(cond=True)
            cb = True if "v" in a else rng.random() < 0.5
            body = self.body(depth + 1, no_binders or not self.binders_in_bodies)
            return {"k": "if", "cb": cb, "c": c, "a": a, "b": b, "body": body}
        if k in ("loop", "lbody"):
            cnt = rng.choice([0, 1, 2, 2, 3, 4])
            step = rng.choice([1, 1, 1, 2, -1])
            start = rng.choice([0, 0, 0, 1, 2]) if step > 0 else rng.choice([2, 3, 4])
            stop = start + cnt * step
            lo, hi = min(start, stop - step if cnt else start), max(start, stop - step if cnt else start)
            h = self.new_reg("raw" if k == "loop" else "rf", hi=(hi + 1) if lo >= 0 else None, loopvar=True)
            rg = self.pick_explicit()
            was_active = rg is not None and rg in self.act
            r_taken = None if was_active else self.take(rg)
            body = self.body(depth + 1, no_binders or not self.binders_in_bodies)
            if r_taken is not None:
                self.act.discard(r_taken)
            self.regs[h]["live"] = False
            out = {"k": k, "s": start, "e": stop, "d": step, "body": body}
            if rg is not None:
                out["r"] = rg
            return out
        if k == "foreach":
            a = self.pick_arr()
            if a is None:
                return None
            h = self.new_reg("raw", hi=self.arrs[a]["len"], loopvar=True)
            r_taken = self.take()
            body = self.body(depth + 1, no_binders or not self.binders_in_bodies)
            self.act.discard(r_taken)
            self.regs[h]["live"] = False
            return {"k": "foreach", "arr": a, "idx": rng.random() < 0.5, "body": body}
        if k == "until":
            n = rng.choice([1, 2, 3, 4])
            h = self.new_reg("rf", hi=n, loopvar=True)
            r_taken = self.take()
            body = self.body(depth + 1, no_binders or not self.binders_in_bodies, allow_empty=rng.random() < 0.15)
            ef = self.val(cond=True)
            ev = rng.choice([0, 0, 1, 1, 2, -1])
            cl = self.body(depth + 1, no_binders=True) if rng.random() < 0.5 else []
            self.act.discard(r_taken)
            self.regs[h]["live"] = False
            return {"k": "until", "n": n, "body": body, "ef": ef, "ev": ev, "cl": cl}
        if k == "try":
            return {"k": "try", "n": rng.choice([1, 2, 3]), "body": self.body(depth + 1, no_binders)}
        return None

    def program(self, n_top=None, flush_p=0.25):
        rng = self.rng
        n_top = n_top if n_top is not None else rng.choice([1, 2, 3, 4, 6, 8, 10])
        out = []
        # a couple of arrays first so that there is something to work with
        for _ in range(rng.choice([1, 2, 3])):
            out.append(self.make("arr", 0, False, False))
        for _ in range(n_top):
            if self.budget <= 0:
                break
            out.append(self.stmt(0, False))
            if rng.random() < flush_p:
                self.on_flush()
                out.append({"k": "flush"})
        if out[-1]["k"] != "flush":
            out.append({"k": "flush"})
        return out

    def on_flush(self):
        for a in self.arrs:
            pass
        for r in self.regs:
            if r.get("meas"):
                r["live"] = False  # M registers are recycled at flush


def wild_program(rng):
    """Programs that exercise the error paths of the builder (syntactic stream only)."""
    g = Gen(rng, max_depth=rng.choice([3, 6, 18]), max_stmts=60, wild=True)
    g.allow_active = True
    g.explicit_p = 0.4
    mode = rng.choice(["deep", "meas", "handles", "types", "zero"])
    if mode == "deep":  # nest until the registers run out
        depth = rng.choice([10, 14, 15, 16, 17, 18])
        s = {"k": "qop", "g": [0], "t": {"k": "new"}}
        for d in range(depth):
            kind = rng.choice(["loop", "lbody", "until"])
            if kind == "until":
                s = {"k": "until", "n": 2, "body": [s], "ef": {"v": 1}, "ev": 0, "cl": []}
            else:
                s = {"k": kind, "s": 0, "e": 2, "d": 1, "body": [s]}
        pre = [{"k": "reg", "v": 1} for _ in range(rng.choice([0, 1, 2]))]
        return pre + [s, {"k": "flush"}]
    if mode == "meas":
        n = rng.choice([15, 16, 17, 18])
        k = rng.choice([5, 16, 40])
        out = []
        for i in range(n):
            out.append({"k": "qop", "g": [], "t": {"k": "reg"}})
            if (i + 1) % k == 0:
                out.append({"k": "flush"})
        return out + [{"k": "flush"}]
    p = g.program()
    if mode == "handles":
        p.insert(rng.randrange(len(p)), {"k": "addr", "h": rng.choice([0, 1, 5, 40]), "o": {"v": 1}, "m": None})
        p.insert(rng.randrange(len(p)), {"k": "foreach", "arr": rng.choice([0, 3, 30]), "idx": False,
                                         "body": [{"k": "qop", "g": [], "t": {"k": "new"}}]})
    elif mode == "types":
        p.insert(rng.randrange(len(p)), {"k": "loop", "s": 0, "e": 2, "d": 1, "body": [
            {"k": "if", "cb": True, "c": "eq", "a": {"h": len(g.regs)}, "b": {"v": 0},
             "body": [{"k": "qop", "g": [], "t": {"k": "new"}}]}]})
    else:
        p.insert(rng.randrange(len(p)), {"k": "arr", "len": 0, "init": rng.choice([None, []])})
    return p


def epr_stmt(rng, hw="generic"):
    """an EPR operation of a random API form, with the register events the model replays"""
    from harness import sdk_epr as E
    forms = [f for f in E.all_forms((hw,))]
    f = rng.choice(forms)
    ev, err, _ = E.events(f)
    return {"k": "epr", "form": f, "ev": ev if ev is not None else []}


def completed_op(rng, depth=3, h0=None, epr_hw=None):
    """One completed operation of a random kind that binds no permanent register (for the C14 long
    sequences); uses only arrays 0..2 (created up front) so that it is valid anywhere.
    h0: number of register handles that exist before the operation (None: unknown -> no handle is
    referenced); with it, bodies of loop_body / loop_until get `if_ez/if_nz` on their own loop index
    followed by an operation that needs a temporary.  epr_hw: also EPR operations (compile-only)."""
    nh = [h0]
    def fut():
        a = rng.randrange(3)
        return {"a": a, "i": rng.randrange(2)}

    def val():
        return rng.choice([{"v": rng.randrange(3)}, {"f": fut()}, {"f": fut()}])

    def leaf():
        if epr_hw is not None and rng.random() < 0.35:
            return epr_stmt(rng, epr_hw)
        k = rng.choice(["qop", "qop", "addf", "addf", "addf2", "qopf", "qopi"])
        if k == "qop":
            return {"k": "qop", "g": [rng.randrange(7)], "t": {"k": "new"}}
        if k == "qopf":
            return {"k": "qop", "g": [], "t": {"k": "fut", "f": fut()}}
        if k == "qopi":
            return {"k": "qop", "g": [], "t": {"k": "fut", "f": {"a": rng.randrange(3), "f": {"a": 0, "i": 0}}}}
        if k == "addf2":
            return {"k": "addf", "f": {"a": 1, "f": {"a": 0, "i": 1}}, "o": {"f": {"a": 2, "f": {"a": 0, "i": 0}}}, "m": 2}
        return {"k": "addf", "f": fut(), "o": val(), "m": rng.choice([None, 2, 5])}

    def op(d, act):
        if d == 0:
            return leaf()
        k = rng.choice(["leaf", "if", "if", "if1", "loop", "lbody", "foreach", "until", "try"])
        if k == "leaf":
            return leaf()
        free = [i for i in range(16) if i not in act]
        inner = act
        rg = None
        if k in ("loop", "lbody", "foreach", "until"):
            # the register the operation will hold while its body is built
            held = free[0]
            if k in ("loop", "lbody") and rng.random() < 0.4:
                rg = rng.choice([free[0], free[0], rng.choice(free)])  # explicit: lowest free / any free
                held = rg
            inner = act | {held}
        myh = None
        if k in ("loop", "lbody", "foreach", "until") and nh[0] is not None:
            myh = nh[0]
            nh[0] += 1
        body = [op(d - 1, inner) for _ in range(rng.choice([1, 1, 2]))]
        if myh is not None and k in ("lbody", "until") and rng.random() < 0.6:
            # branch on the loop's own index (a RegFuture in the register the loop holds), then something
            # that needs a temporary: the temporary must not land in the loop register
            idx_if = {"k": "if", "cb": rng.random() < 0.5, "c": rng.choice(["ez", "nz"]), "a": {"h": myh},
                      "b": {"v": 0}, "body": [{"k": "addf", "f": fut(), "o": {"v": 1}, "m": rng.choice([None, 5])}]}
            tmp_user = rng.choice([
                {"k": "addf", "f": fut(), "o": val(), "m": rng.choice([None, 2, 5])},
                {"k": "if", "cb": True, "c": "ge", "a": {"f": fut()}, "b": {"v": 0},
                 "body": [{"k": "qop", "g": [], "t": {"k": "fut", "f": fut()}}]}])
            body = [idx_if, tmp_user] + body
        if k == "if":
            a = val()
            return {"k": "if", "cb": True if "v" in a else rng.random() < 0.5, "c": rng.choice(["eq", "ne", "lt", "ge"]),
                    "a": a, "b": val(), "body": body}
        if k == "if1":
            return {"k": "if", "cb": rng.random() < 0.5, "c": rng.choice(["ez", "nz"]), "a": {"f": fut()},
                    "b": {"v": 0}, "body": body}
        if k in ("loop", "lbody"):
            out = {"k": k, "s": 0, "e": rng.choice([1, 2]), "d": 1, "body": body}
            if rg is not None:
                out["r"] = rg
            return out
        if k == "foreach":
            return {"k": "foreach", "arr": rng.randrange(3), "idx": rng.random() < 0.5, "body": body}
        if k == "until":
            # exit condition: an array Future, or (a RegFuture is not a temporary) the loop_until's own counter
            ef = {"h": myh} if myh is not None and rng.random() < 0.3 else {"f": fut()}
            return {"k": "until", "n": 2, "body": body, "ef": ef, "ev": rng.choice([0, 1]),
                    "cl": [leaf()] if rng.random() < 0.4 else []}
        return {"k": "try", "n": 1, "body": body}

    return op(rng.randrange(depth + 1), frozenset())


def degenerate_op(rng, h0=None):
    """A completed operation whose body contributes nothing: empty-body foreach / enumerate / loop / loop_body /
    if / loop_until / try, a loop over an empty range, and nestings of these (C14: such a block must give its
    register back like any other)."""
    def fut():
        return {"a": rng.randrange(3), "i": rng.randrange(2)}

    def empty(d):
        k = rng.choice(["foreach", "foreach", "enumerate", "loop", "lbody", "if", "if1", "until", "try", "zero"])
        body = [] if d == 0 or rng.random() < 0.5 else [empty(d - 1) for _ in range(rng.choice([1, 2]))]
        if k in ("foreach", "enumerate"):
            return {"k": "foreach", "arr": rng.randrange(3), "idx": k == "enumerate", "body": body}
        if k in ("loop", "lbody"):
            return {"k": k, "s": 0, "e": rng.choice([1, 2, 3]), "d": 1, "body": body}
        if k == "zero":  # a real body, but the range is empty
            b = body or [{"k": "addf", "f": fut(), "o": {"v": 1}, "m": None}]
            return {"k": rng.choice(["loop", "lbody"]), "s": 2, "e": 2, "d": 1, "body": b}
        if k == "if":
            return {"k": "if", "cb": True, "c": rng.choice(["eq", "ne", "lt", "ge"]), "a": {"v": rng.randrange(3)},
                    "b": {"f": fut()}, "body": body}
        if k == "if1":
            return {"k": "if", "cb": rng.random() < 0.5, "c": rng.choice(["ez", "nz"]), "a": {"f": fut()},
                    "b": {"v": 0}, "body": body}
        if k == "until":
            return {"k": "until", "n": 2, "body": body, "ef": {"f": fut()}, "ev": 0, "cl": []}
        return {"k": "try", "n": 1, "body": body}

    return empty(rng.choice([0, 0, 1, 2]))


def count_binders(x):
    """register handles bound by building a statement (loop-like operations bind one each)"""
    if isinstance(x, list):
        return sum(count_binders(y) for y in x)
    if not isinstance(x, dict):
        return 0
    n = 1 if x.get("k") in ("loop", "lbody", "foreach", "until", "reg") else 0
    if x.get("k") == "qop" and x["t"]["k"] == "reg":
        n += 1
    n += count_binders(x.get("body", []))
    if x.get("k") == "until" and emits(x.get("body", [])):
        n += count_binders(x.get("cl", []))
    return n


def long_sequence(rng, n_ops, flush_every, depth=3, epr_hw=None, reg_meas_p=0.15, degenerate=0.0):
    """completed operations of every kind, a flush after every `flush_every`-th; interleaved with
    register-outcome measurements (`measure(store_array=False)`, at most 15 between two flushes: their
    M registers are held until the flush)"""
    p = [{"k": "arr", "len": 2, "init": [0, 1]}, {"k": "arr", "len": 2, "init": [1, 1]},
         {"k": "arr", "len": 2, "init": [2, 0]}, {"k": "flush"}]
    h = 0
    in_seg = 0
    for i in range(n_ops):
        if rng.random() < reg_meas_p and in_seg < 15:
            p.append({"k": "qop", "g": [rng.randrange(7)] if rng.random() < 0.5 else [], "t": {"k": "reg"}})
            h += 1
            in_seg += 1
        if (i + 1) % flush_every == 0:
            in_seg = 0
        if degenerate and rng.random() < degenerate:
            p.append(degenerate_op(rng, h0=h))
        else:
            p.append(completed_op(rng, depth, h0=h, epr_hw=epr_hw))
        h += count_binders(p[-1])
        if (i + 1) % flush_every == 0:
            p.append({"k": "flush"})
    if p[-1]["k"] != "flush":
        p.append({"k": "flush"})
    return p


def live_across_flushes(rng):
    """A history in which registers stay live ACROSS flushes: `new_register()` handles (and register
    outcomes) created in one subroutine, later subroutines full of constants that do not mention them
    (array initialisation, adds of literals, loops with literal bounds, ifs on literals), and uses of the
    registers afterwards.  The assembler must not pick a live register as scratch for those constants."""
    p = [{"k": "arr", "len": 2, "init": [0, 1]}, {"k": "arr", "len": 2, "init": [1, 1]},
         {"k": "arr", "len": 2, "init": [2, 0]}]
    regs = []  # handles of new_register() registers
    h = 0
    na = 3

    def consts():
        nonlocal na, h
        k = rng.choice(["arr", "arr", "addf", "addf", "loop", "if", "qopf", "foreach"])
        if k == "arr":
            na += 1
            n = rng.choice([1, 2, 3])
            return {"k": "arr", "len": n, "init": [rng.randrange(1, 9) for _ in range(n)]}
        f = {"a": rng.randrange(3), "i": rng.randrange(2)}
        add = {"k": "addf", "f": f, "o": {"v": rng.randrange(1, 9)}, "m": rng.choice([None, 7])}
        if k == "addf":
            return add
        if k == "qopf":
            return {"k": "qop", "g": [rng.randrange(7)], "t": {"k": "fut", "f": f}}
        h += 1 if k in ("loop", "foreach") else 0
        if k == "loop":
            return {"k": rng.choice(["loop", "lbody"]), "s": 0, "e": rng.choice([1, 2, 3]), "d": 1, "body": [add]}
        if k == "foreach":
            return {"k": "foreach", "arr": rng.randrange(3), "idx": rng.random() < 0.5, "body": [add]}
        return {"k": "if", "cb": True, "c": rng.choice(["lt", "ge", "ne"]), "a": {"v": rng.randrange(3)},
                "b": {"f": f}, "body": [add]}

    def use():
        hh = rng.choice(regs)
        k = rng.choice(["addr", "addr", "if", "if1"])
        if k == "addr":
            return {"k": "addr", "h": hh, "o": {"v": rng.randrange(1, 5)}, "m": rng.choice([None, 11])}
        body = [{"k": "addf", "f": {"a": rng.randrange(3), "i": rng.randrange(2)}, "o": {"v": 1}, "m": None}]
        if k == "if":
            return {"k": "if", "cb": rng.random() < 0.5, "c": rng.choice(["eq", "ne", "lt", "ge"]), "a": {"h": hh},
                    "b": {"v": rng.randrange(10)}, "body": body}
        return {"k": "if", "cb": rng.random() < 0.5, "c": rng.choice(["ez", "nz"]), "a": {"h": hh}, "b": {"v": 0},
                "body": body}

    for seg in range(rng.choice([3, 4, 5])):
        if seg == 0 or (len(regs) < 3 and rng.random() < 0.4):
            for _ in range(rng.choice([1, 1, 2])):
                p.append({"k": "reg", "v": rng.randrange(3, 40)})
                regs.append(h)
                h += 1
        if seg > 0:
            mode = rng.choice(["consts", "consts", "mixed"])
            for _ in range(rng.choice([1, 2, 3])):
                p.append(consts())
            if mode == "mixed" or seg >= 2:
                for _ in range(rng.choice([1, 2])):
                    p.append(use())
        p.append({"k": "flush"})
    return p


def regfuture_conditions(rng):
    """A history whose exit / branch conditions are RegFutures: `loop_until` (and `if_*`) on a register from
    `new_register()`, on the counter of an enclosing `loop_body` / of the `loop_until` itself, and on an M register
    from `measure(store_array=False)`; each followed by operations that need temporaries and by uses of the
    register.  A condition operand that is a RegFuture is NOT a temporary: closing the construct must leave it
    active (and its value intact)."""
    p = [{"k": "arr", "len": 2, "init": [0, 1]}, {"k": "arr", "len": 2, "init": [1, 1]},
         {"k": "arr", "len": 2, "init": [2, 0]}]
    nh = [0]
    regs = []

    def fut():  # array 0 is never written: its entries index other arrays
        return {"a": rng.choice([1, 2]), "i": rng.randrange(2)}

    def tmp_user():
        return rng.choice([
            {"k": "addf", "f": fut(), "o": {"f": fut()}, "m": rng.choice([None, 5])},
            {"k": "addf", "f": {"a": 1, "f": {"a": 0, "i": 1}}, "o": {"v": 1}, "m": 3},
            {"k": "if", "cb": True, "c": "ge", "a": {"f": fut()}, "b": {"v": 0},
             "body": [{"k": "addf", "f": fut(), "o": {"v": 1}, "m": None}]}])

    def cond_if(hh):
        c = rng.choice(["ez", "nz", "eq", "ne", "lt", "ge"])
        return {"k": "if", "cb": rng.random() < 0.5, "c": c, "a": {"h": hh},
                "b": {"v": 0} if c in ("ez", "nz") else rng.choice([{"v": rng.randrange(6)}, {"f": fut()}]),
                "body": [tmp_user()]}

    def until_on(hh, body_extra=()):
        """loop_until whose exit condition is the RegFuture `hh` (None: its own counter)"""
        own = nh[0]
        nh[0] += 1
        body = [tmp_user()] + list(body_extra)
        return {"k": "until", "n": rng.choice([1, 2, 3]), "body": body, "ef": {"h": own if hh is None else hh},
                "ev": rng.randrange(0, 12), "cl": [tmp_user()] if rng.random() < 0.3 else []}

    def construct(mh):
        kinds = ["until-reg", "until-reg", "if-reg", "until-own", "lbody-counter", "lbody-counter"]
        if mh is not None:
            kinds += ["until-m", "if-m"]
        k = rng.choice(kinds)
        hh = rng.choice(regs)
        if k == "until-reg":
            extra = [{"k": "addr", "h": hh, "o": {"v": rng.randrange(1, 4)}, "m": None}] if rng.random() < 0.5 else []
            return until_on(hh, extra)
        if k == "if-reg":
            return cond_if(hh)
        if k == "until-own":
            return until_on(None)
        if k == "until-m":
            return until_on(mh)
        if k == "if-m":
            return cond_if(mh)
        # loop_body whose body branches / loops on the loop_body's counter
        me = nh[0]
        nh[0] += 1
        inner = [until_on(me) if rng.random() < 0.7 else cond_if(me), tmp_user()]
        if rng.random() < 0.4:  # a nested loop right after: it must not get the counter's register
            nh[0] += 1
            inner.append({"k": "loop", "s": 0, "e": 2, "d": 1, "body": [tmp_user()]})
        return {"k": "lbody", "s": 0, "e": rng.choice([1, 2, 3]), "d": 1, "body": inner}

    for seg in range(rng.choice([2, 3, 4])):
        if seg == 0 or (len(regs) < 3 and rng.random() < 0.3):
            for _ in range(rng.choice([1, 2])):
                p.append({"k": "reg", "v": rng.randrange(3, 14)})
                regs.append(nh[0])
                nh[0] += 1
        mh = None
        if rng.random() < 0.4:
            p.append({"k": "qop", "g": [rng.randrange(7)], "t": {"k": "reg"}})
            mh = nh[0]
            nh[0] += 1
        for _ in range(rng.choice([1, 2, 3])):
            p.append(construct(mh))
            if rng.random() < 0.6:
                p.append(tmp_user())
            if rng.random() < 0.6:
                p.append({"k": "addr", "h": rng.choice(regs), "o": {"v": rng.randrange(1, 4)}, "m": None})
        p.append({"k": "flush"})
    return p


def loop_register_writes(sub):
    """Static check on one emitted proto-subroutine (canonical commands): inside a loop (label L ... jmp L) the
    loop register (operand of the `beq` after L, incremented by the `add` before the jmp) is written by no other
    instruction of the body.  Returns a list of offending (position, command, register)."""
    bad = []
    if not sub:
        return bad
    pos = {c["l"]: i for i, c in enumerate(sub) if "l" in c}
    for j, c in enumerate(sub):
        if c.get("i") != "jmp" or not c["o"] or "l" not in c["o"][0] or c["o"][0]["l"] not in pos:
            continue
        i = pos[c["o"][0]["l"]]
        if not (i + 1 < j and sub[i + 1].get("i") == "beq" and "r" in sub[i + 1]["o"][0]):
            continue
        reg = sub[i + 1]["o"][0]["r"]
        inc = sub[j - 1]
        if not (inc.get("i") == "add" and inc["o"][0].get("r") == reg):
            bad.append([j - 1, inc, reg])
            continue
        for k in range(i + 2, j - 1):
            x = sub[k]
            if "i" not in x:
                continue
            dst = None
            if x["i"] in ("set", "add", "sub", "addm", "subm", "load", "lea") and x["o"]:
                dst = x["o"][0].get("r")
            elif x["i"] == "meas" and len(x["o"]) > 1:
                dst = x["o"][1].get("r")
            if dst == reg:
                bad.append([k, x, reg])
    return bad


def add_history(rng, n_ops=30, flush_every=4):
    """`RegFuture.add` / `Future.add` with every operand kind (int, array Future, future-indexed Future, register)
    with and without a modulus, on `new_register()` registers and array entries: completed operations, none may
    keep a register."""
    p = [{"k": "arr", "len": 2, "init": [0, 1]}, {"k": "arr", "len": 2, "init": [1, 1]},
         {"k": "arr", "len": 2, "init": [2, 0]}, {"k": "reg", "v": rng.randrange(1, 9)},
         {"k": "reg", "v": rng.randrange(1, 9)}, {"k": "flush"}]

    def fut():
        return {"a": rng.choice([1, 2]), "i": rng.randrange(2)}

    def other():
        return rng.choice([{"v": rng.randrange(1, 5)}, {"f": fut()}, {"f": fut()},
                           {"f": {"a": rng.choice([1, 2]), "f": {"a": 0, "i": rng.randrange(2)}}}])

    for i in range(n_ops):
        m = rng.choice([None, None, 5, 7, 11])
        if rng.random() < 0.6:
            p.append({"k": "addr", "h": rng.randrange(2), "o": other(), "m": m})
        else:
            p.append({"k": "addf", "f": rng.choice([fut(), {"a": rng.choice([1, 2]), "f": {"a": 0, "i": 1}}]),
                      "o": other(), "m": m})
        if (i + 1) % flush_every == 0:
            p.append({"k": "flush"})
    if p[-1]["k"] != "flush":
        p.append({"k": "flush"})
    return p


def m_across_flushes(rng):
    """Outcomes measured into REGISTERS (`measure(store_array=False)`) and `new_register()` values in one flush,
    used as conditions / operands in LATER flushes (no other register measurement in between: the SDK hands the M
    registers out again after a flush)."""
    p = [{"k": "arr", "len": 2, "init": [0, 1]}, {"k": "arr", "len": 2, "init": [1, 1]},
         {"k": "arr", "len": 2, "init": [2, 0]}]
    hs, regs = [], []
    h = 0
    for _ in range(rng.choice([1, 2, 3])):
        p.append({"k": "qop", "g": [rng.randrange(7)] if rng.random() < 0.6 else [], "t": {"k": "reg"}})
        hs.append(h)
        h += 1
    if rng.random() < 0.6:
        p.append({"k": "reg", "v": rng.randrange(0, 3)})
        regs.append(h)
        h += 1
    p.append({"k": "flush"})

    def fut():
        return {"a": rng.choice([1, 2]), "i": rng.randrange(2)}

    def body():
        return [{"k": "addf", "f": fut(), "o": {"v": rng.randrange(1, 6)}, "m": None}
                for _ in range(rng.choice([1, 2]))]

    for seg in range(rng.choice([1, 2, 3])):
        for _ in range(rng.choice([1, 2, 3])):
            hh = rng.choice(hs + regs)
            c = rng.choice(["ez", "nz", "eq", "ne", "lt", "ge"])
            b = {"v": 0} if c in ("ez", "nz") else rng.choice([{"v": rng.randrange(2)}, {"f": {"a": 0, "i": rng.randrange(2)}}])
            p.append({"k": "if", "cb": rng.random() < 0.5, "c": c, "a": {"h": hh}, "b": b, "body": body()})
            if regs and rng.random() < 0.3:
                p.append({"k": "addr", "h": regs[0], "o": {"v": 1}, "m": None})
        p.append({"k": "flush"})
    return p


def oracle_flush_invariance(prog, outcomes):
    """Model-free, metamorphic: where the flushes are placed does not change what the controller computes.
    The program with its flushes is run on the real Executor; the direct interpreter evaluates the same
    statements in ONE flush (there every register handle is alive).  Compared: gate/measurement trace and
    the controller's arrays after the last flush."""
    try:
        d = Direct(outcomes).run(without_inner_flushes(prog))
    except Invalid as e:
        return "invalid", str(e)
    r = RealRun(execute=True, outcomes=outcomes).run(prog, read=True)
    if r.err is not None:
        return "fail", [{"what": "real SDK/controller raised on a valid program", "err": r.err,
                         "exec_err": r.exec_err, "exc": repr(r.first_exc), "feature": "raise"}]
    fails = []
    if r.trace() != d.trace:
        fails.append({"what": "gate/measurement trace differs from the single-flush evaluation",
                      "real": r.trace()[:12], "direct": d.trace[:12], "feature": "trace"})
    want = d.views[-1]["arr"]
    got = r.reads[-1]["ctrl"]["arrays"]
    for a, vals in want.items():
        if got.get(a) != vals:
            fails.append({"what": "controller array @%d after the last flush differs from the single-flush "
                                  "evaluation (a register-held value did not survive a flush)" % a,
                          "real": got.get(a), "direct": vals, "feature": "ctrl-array"})
    return ("fail", fails) if fails else ("ok", None)


# ----------------------------------------------------------------------------- comparison helpers


def model_run(driver, progs):
    # one request per round trip: a batch of large requests can fill both pipes (deadlock)
    return [driver.call({"op": "sdk.run", "p": p}) for p in progs]


def compare_syntactic(prog, real, model):
    """None if the real SDK and the Lean `emit` agree on this program, else a description."""
    merr = model.get("err")
    if (real.err or None) != (merr or None):
        # both failed at the same step with different kinds, or only one failed
        return {"what": "error", "real": real.err, "model": merr}
    nsub = len(real.subs)
    msubs = model["subs"][:nsub] if real.err else model["subs"]
    if real.subs != msubs:
        for i, (a, b) in enumerate(zip(real.subs, msubs)):
            if a != b:
                j = next((k for k, (x, y) in enumerate(zip(a or [], b or [])) if x != y), min(len(a or []), len(b or [])))
                return {"what": "subroutine %d differs at command %d" % (i, j),
                        "real": (a or [])[max(0, j - 2):j + 3], "model": (b or [])[max(0, j - 2):j + 3]}
        return {"what": "number of subroutines", "real": len(real.subs), "model": len(msubs)}
    msnaps = model["snaps"][:len(real.snaps)]
    if real.snaps != msnaps:
        i = next((k for k, (x, y) in enumerate(zip(real.snaps, msnaps)) if x != y), -1)
        return {"what": "memory-manager snapshot after step %d" % i,
                "real": real.snaps[i] if i >= 0 else len(real.snaps), "model": msnaps[i] if i >= 0 else len(msnaps)}
    # the registers reserved for the assembler at flush k are the model's active registers at that flush
    # (`reservedOf` of Props/C05Chain2.lean); only executed runs go through `subrt_compile_subroutine`
    flush_steps = [i for i, t in enumerate(prog) if t["k"] == "flush"]
    for k, rr in sorted(getattr(real, "reserved", {}).items()):
        if k < len(flush_steps) and flush_steps[k] < len(msnaps):
            want = [["R", i] for i in msnaps[flush_steps[k]]["active"]]
            if rr != want:
                return {"what": "registers reserved for the assembler at flush %d" % k, "real": rr, "model": want}
    return None


def n_outcomes_needed(prog):
    return 64


def oracle(prog, outcomes, keep=None, interfere=False):
    """Model-free check of one program: real SDK -> bytes -> real Executor vs `Direct`.
    Returns (status, failures): status in {"ok", "invalid", "fail"}; failures is a list of dicts."""
    try:
        d = Direct(outcomes).run(prog)
    except Invalid as e:
        return "invalid", str(e)
    r = RealRun(execute=True, outcomes=outcomes).run(prog, read=True, interfere=interfere)
    if keep is not None:
        keep["real"] = r
    if r.err is not None:
        return "fail", [{"what": "real SDK/controller raised on a valid program", "err": r.err,
                         "exec_err": r.exec_err, "exc": repr(r.first_exc), "feature": "raise"}]
    fails = []
    for k in sorted(r.scratch):
        both = sorted(set(r.scratch[k]) & set(r.live.get(k, [])))
        if both:
            fails.append({"what": "the assembler used live register(s) %s as scratch in the subroutine of flush %d"
                                  % (",".join(both), k), "scratch": r.scratch[k], "live": r.live[k],
                          "reserved": r.reserved.get(k), "feature": "scratch-live", "flush": k})
    if r.trace() != d.trace:
        rt, dt = r.trace(), d.trace
        i = next((k for k, (x, y) in enumerate(zip(rt, dt)) if x != y), min(len(rt), len(dt)))
        fails.append({"what": "gate/measurement trace differs at event %d" % i,
                      "real": rt[max(0, i - 3):i + 3], "direct": dt[max(0, i - 3):i + 3],
                      "lens": [len(rt), len(dt)], "feature": "trace"})
    if len(r.reads) != len(d.views):
        fails.append({"what": "number of flushes", "real": len(r.reads), "direct": len(d.views), "feature": "flushes"})
    for k, (rv, dv) in enumerate(zip(r.reads, d.views)):
        # controller state
        for a, vals in dv["arr"].items():
            if rv["ctrl"]["arrays"].get(a) != vals:
                fails.append({"what": "controller array @%d after flush %d" % (a, k), "feature": "ctrl-array",
                              "real": rv["ctrl"]["arrays"].get(a), "direct": vals, "flush": k})
        for h, v in dv["reg"].items():
            if rv["ctrl"]["regs"].get(h) != v:
                fails.append({"what": "controller register of handle %d after flush %d" % (h, k),
                              "feature": "ctrl-reg", "handle": h, "flush": k,
                              "real": rv["ctrl"]["regs"].get(h), "direct": v})
        # host view through the program's handles
        for a, vals in dv["arr"].items():
            if rv["host"]["arr"].get(a) != vals:
                fails.append({"what": "Array handle @%d read on the host after flush %d" % (a, k),
                              "real": rv["host"]["arr"].get(a), "direct": vals, "feature": "array", "flush": k})
        for key, hv in rv["host"]["fut"].items():
            a, i = map(int, key.split(","))
            if a in dv["arr"] and i < len(dv["arr"][a]) and hv != dv["arr"][a][i]:
                fails.append({"what": "Future handle @%d[%d] read on the host after flush %d" % (a, i, k),
                              "real": hv, "direct": dv["arr"][a][i], "fresh": rv["fresh"]["fut"].get(key),
                              "feature": "future-handle", "flush": k})
        for a, vals in dv["arr"].items():
            for how, call in (("api", "get_future_index(i)"), ("slice", "get_future_slice(0:n)")):
                got = rv["fresh"].get(how, {}).get(a)
                if got is not None and got != vals:
                    fails.append({"what": "entries of array @%d read through fresh %s handles after flush %d"
                                          % (a, call, k), "real": got, "direct": vals,
                                  "feature": "fresh-api-handle", "flush": k})
        for h, v in dv["reg"].items():
            if rv["host"]["reg"].get(h) != v:
                fails.append({"what": "RegFuture handle %d read on the host after flush %d" % (h, k),
                              "real": rv["host"]["reg"].get(h), "direct": v, "fresh": rv["fresh"]["reg"].get(h),
                              "ctrl": rv["ctrl"]["regs"].get(h), "feature": "reg-handle", "handle": h, "flush": k})
    return ("fail", fails) if fails else ("ok", None)


def without_inner_flushes(prog):
    return [t for t in prog if t["k"] != "flush"] + [{"k": "flush"}]


def _refs(x, out):
    if isinstance(x, dict):
        if "h" in x and isinstance(x["h"], int):
            out.add(x["h"])
        for v in x.values():
            _refs(v, out)
    elif isinstance(x, list):
        for v in x:
            _refs(v, out)


def reg_handle_used_across_flush(prog):
    """Is a handle bound by a top-level `reg` referenced in a later flush segment?"""
    d = Direct([])
    p = copy.deepcopy(prog)
    seg = 0
    born = {}
    for t in p:
        if t["k"] == "flush":
            seg += 1
            continue
        try:
            d.elaborate([t], [])
        except Invalid:
            return False
        if t["k"] == "reg":
            born[t["_h"]] = seg
        refs = set()
        _refs(t, refs)
        if any(h in born and born[h] < seg for h in refs):
            return True
    return False


def tag_known(prog, outcomes, f, cache):
    """Known-finding id for one oracle failure, or None.  Narrow rule (DESIGN 3.2-6): the failure shows
    the finding's feature AND disappears when exactly that feature is removed (one re-run on the real code).

    F41  host-side handle staleness across flushes: (a) a Future/RegFuture object keeps the first value it
         resolved to; (b) a register is returned (ret_reg) only by the subroutine that created its RegFuture.
         Feature: the same location read through a brand-new handle object is right (a), or the controller
         register is right and the program is right once the flushes in between are removed (b).
    (F42 — a new_register() register used as assembler scratch by a later subroutine — is fixed: not tagged.)
    """
    feat = f.get("feature")
    if feat == "future-handle" and f.get("fresh") == f.get("direct"):
        return "F41"
    if feat == "reg-handle" and f.get("fresh") == f.get("direct"):
        return "F41"
    if feat == "reg-handle" and f.get("ctrl") == f.get("direct"):
        if "noflush" not in cache:
            s2, d2 = oracle(without_inner_flushes(prog), outcomes)
            cache["noflush"] = [] if s2 == "ok" else (d2 if s2 == "fail" else None)
        rest = cache["noflush"]
        if rest is None:
            return None
        still = any(x.get("feature") == feat and x.get("handle") == f.get("handle") for x in rest)
        return None if still else "F41"
    return None


# ----------------------------------------------------------------------------- model semantics cross-checks


def _norm_trace_model(tr):
    out = []
    for e in tr or []:
        if e[0] == "init":
            out.append(["g", "init", 0])
        elif e[0] == "g":
            out.append(["g", GATES[e[1]].lower(), 0])
        elif e[0] == "meas":
            out.append(["meas", 0, e[1]])
    return out


SKIP_INVALID = ("value outside 32 bits", "step budget")


def cross_hsem(driver, prog, outcomes, model=None, fuel=4000, hres=None):
    """Lean `HostSem` (driver op sdk.hsem) vs the direct Python interpreter `Direct` on one program.
    Compared only when the model's builder accepts the program (build errors are not run-time
    semantics).  Returns (status, detail): status in ok / skip / differ."""
    if model is None:
        model = driver.call({"op": "sdk.run", "p": prog})
    if model.get("err") is not None:
        return "skip", "build error"
    try:
        d = Direct(outcomes).run(prog)
        dres = {"ok": True, "views": d.views, "trace": d.trace}
    except Invalid as e:
        if any(str(e).startswith(x) for x in SKIP_INVALID):
            return "skip", str(e)
        dres = {"ok": False, "why": str(e)}
    h = hres if hres is not None else driver.call({"op": "sdk.hsem", "p": prog, "outs": list(outcomes), "fuel": fuel})
    if not dres["ok"]:
        if h["ok"]:
            return "differ", {"what": "Direct rejects the program, HostSem evaluates it", "direct": dres["why"]}
        return "ok", "both invalid"
    if not h["ok"]:
        return "differ", {"what": "HostSem rejects the program, Direct evaluates it"}
    hviews = [{"arr": {a: l for a, l in v["arr"]}, "reg": {hh: x for hh, x in v["reg"]}} for v in h["views"]]
    if hviews != dres["views"]:
        k = next((i for i, (x, y) in enumerate(zip(hviews, dres["views"])) if x != y), -1)
        return "differ", {"what": "view after flush %d" % k,
                          "hostsem": hviews[k] if k >= 0 else len(hviews),
                          "direct": dres["views"][k] if k >= 0 else len(dres["views"])}
    if _norm_trace_model(h["trace"]) != dres["trace"]:
        return "differ", {"what": "trace", "hostsem": _norm_trace_model(h["trace"])[:12], "direct": dres["trace"][:12]}
    return "ok", None


def cross_exec(driver, prog, outcomes, fuel=60000, real=None):
    """Lean `ProtoExec` run of the MODEL's proto-subroutines (driver op sdk.exec) vs the real SDK ->
    assembler -> bytes -> real Executor on the same program: arrays, handle registers, trace after
    every flush.  Validates the hand-written label-level semantics (and, indirectly, C03's step)."""
    e = driver.call({"op": "sdk.exec", "p": prog, "outs": list(outcomes), "fuel": fuel})
    if e.get("builderr"):
        return "skip", "build error"
    r = real if real is not None else RealRun(execute=True, outcomes=outcomes).run(prog, read=True)
    if r.err is not None:
        if e["ok"]:
            if r.err[1] == "steplimit":
                return "skip", "steplimit"
            return "differ", {"what": "real controller faults, ProtoExec runs", "real": r.err, "exec_err": r.exec_err}
        return "ok", "both fault"
    if not e["ok"]:
        return "differ", {"what": "ProtoExec faults / does not halt, real controller runs"}
    states = [x for x in e["states"] if x is not None]
    reads = r.reads
    # flushes that sent nothing leave no state on either side
    real_states = [rv for rv, sub in zip(reads, r.subs) if sub is not None]
    if len(states) != len(real_states):
        return "differ", {"what": "number of executed subroutines", "model": len(states), "real": len(real_states)}
    for k, (ms, rv) in enumerate(zip(states, real_states)):
        marr = {a: l for a, l in ms["arr"]}
        rarr = {a: v for a, v in rv["ctrl"]["arrays"].items() if v is not None}
        if marr != rarr:
            return "differ", {"what": "arrays after subroutine %d" % k, "model": marr, "real": rarr}
    if _norm_trace_model(e["trace"]) != r.trace():
        return "differ", {"what": "trace", "model": _norm_trace_model(e["trace"])[:12], "real": r.trace()[:12]}
    return "ok", None


# ----------------------------------------------------------------------------- shrinking


def _positions(body, path=()):
    for i, s in enumerate(body):
        yield path + (i,)
        for key in ("body", "cl"):
            if isinstance(s, dict) and key in s and isinstance(s[key], list):
                yield from _positions(s[key], path + (i, key))


def _remove(prog, pos):
    p = copy.deepcopy(prog)
    cur = p
    for x in pos[:-1]:
        cur = cur[x]
    del cur[pos[-1]]
    return p


def _hoist(prog, pos):
    """replace a compound statement by its body"""
    p = copy.deepcopy(prog)
    cur = p
    for x in pos[:-1]:
        cur = cur[x]
    s = cur[pos[-1]]
    if not (isinstance(s, dict) and "body" in s):
        return None
    cur[pos[-1]:pos[-1] + 1] = s["body"]
    return p


def shrink(prog, fails, max_tries=400, max_seconds=25.0):
    """Greedy delta debugging: remove / hoist statements while `fails(prog)` stays true."""
    import time
    t_end = time.time() + max_seconds
    tries = 0
    changed = True
    while changed and tries < max_tries and time.time() < t_end:
        changed = False
        for pos in sorted(_positions(prog), key=lambda x: (-len(x), x), reverse=False):
            for cand in (_remove(prog, pos), _hoist(prog, pos)):
                if cand is None or cand == prog or time.time() > t_end:
                    continue
                tries += 1
                try:
                    ok = fails(cand)
                except Exception:
                    ok = False
                if ok:
                    prog = cand
                    changed = True
                    break
            if changed or tries >= max_tries:
                break
    return prog


def dumps(p):
    return json.dumps(p, separators=(",", ":"))
