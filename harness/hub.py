"""Real-code side of the `hub` correspondence stream (C18).

* `locate()`   — finds, by AST pattern, the source lines of `_SocketHub` that touch shared state and
                 names each with the model's program-counter label; raises if the code no longer has
                 the shape the model was written from (=> the tie counts as broken).
* `Scheduler`  — deterministic scheduler for real threads: every worker thread has a `sys.settrace`
                 tracer that parks it (on its own semaphore) in front of every located line; `step(tid)`
                 lets exactly one thread execute exactly one such line (plus local code up to the next).
* `run_case`   — executes endpoint programs under a schedule policy on the REAL hub and returns the
                 shared state after every step, in the canonical form the Lean driver prints.
* `oracle`     — model-free check of the property on the real run.
"""
import ast
import json
import sys
import threading

from vlib import common

common.use_repo()
from netqasm.logging.glob import set_log_level  # noqa: E402

set_log_level("ERROR")
from netqasm.sdk.classical_communication.message import StructuredMessage  # noqa: E402
from netqasm.sdk.classical_communication.thread_socket import socket_hub as SH  # noqa: E402
from netqasm.sdk.classical_communication.thread_socket.socket import ThreadSocket  # noqa: E402
from netqasm.sdk.classical_communication.thread_socket.broadcast_channel import ThreadBroadcastChannel  # noqa: E402

HUB_FILE = SH.__file__
SHARED = ("_open_sockets", "_remote_sockets", "_messages", "_recv_callbacks", "_conn_lost_callbacks", "_lock")
METHODS = ("connect", "_add_callbacks", "is_connected", "disconnect", "_wait_for_remote", "send", "recv")
LOCK_KINDS = ("sLock", "rLock", "rLock2", "dLock", "xLock")
# loop heads: reaching them again without any change of shared state is a spin iteration
SPIN_KINDS = ("cWaitOpen", "rLock", "wCheck")


class TieBroken(Exception):
    pass


# ------------------------------------------------------------------ AST location of the steps


def _src(node):
    return ast.unparse(node)


def _header(stmt):
    """the part of a statement that executes on its own line(s): test / items for compound statements"""
    if isinstance(stmt, (ast.If, ast.While)):
        return _src(stmt.test)
    if isinstance(stmt, ast.With):
        return ", ".join(_src(i.context_expr) for i in stmt.items)
    if isinstance(stmt, (ast.For, ast.Try, ast.FunctionDef)):
        return ""
    return _src(stmt)


def _stmts(body):
    for st in body:
        yield st
        for field in ("body", "orelse", "finalbody"):
            sub = getattr(st, field, None)
            if sub:
                yield from _stmts(sub)


# (method, kind, predicate on (statement, header source))
def _patterns():
    def is_(cls, *subs):
        return lambda st, h: isinstance(st, cls) and all(s in h for s in subs)

    return [
        ("connect", "cOpen", is_(ast.Expr, "self._open_sockets.add(socket.key)")),
        ("connect", "cRemote", is_(ast.Expr, "self._remote_sockets.add(socket.key)")),
        ("_add_callbacks", "cCbRecv", is_(ast.Assign, "self._recv_callbacks[socket.key] =")),
        ("_add_callbacks", "cCbLost", is_(ast.Assign, "self._conn_lost_callbacks[socket.key] =")),
        ("_wait_for_remote", "cWaitOpen", is_(ast.If, "socket.remote_key in self._open_sockets")),
        ("_wait_for_remote", "cWaitRemote", is_(ast.If, "socket.remote_key in self._remote_sockets")),
        ("is_connected", "sCheck", is_(ast.Return, "in self._open_sockets", "socket.key", "socket.remote_key")),
        ("send", "sCb", is_(ast.Assign, "recv_callback = self._recv_callbacks.get(socket.remote_key)")),
        ("send", "sCall", is_(ast.Expr, "method(msg)")),
        ("send", "sLock", is_(ast.With, "self._lock")),
        ("send", "sAppend", is_(ast.Expr, "self._messages[socket.remote_key].append(msg)")),
        ("recv", "rLock", None),   # the two `with self._lock` of recv are told apart by their bodies
        ("recv", "rRead", is_(ast.Assign, "messages = self._messages[socket.key]")),
        ("recv", "rLen", is_(ast.If, "len(messages) == 0")),
        ("recv", "rLock2", None),
        ("recv", "rPop", is_(ast.Assign, "msg = messages.pop(0)")),
        ("disconnect", "dLock", is_(ast.With, "self._lock")),
        ("disconnect", "dLostGet", is_(ast.Assign, "self._conn_lost_callbacks.get(socket.remote_key)")),
        ("disconnect", "dLostCall", is_(ast.Expr, "method()")),
        ("disconnect", "dOpenChk", is_(ast.If, "socket.key in self._open_sockets")),
        ("disconnect", "dOpenRm", is_(ast.Expr, "self._open_sockets.remove(socket.key)")),
        ("disconnect", "dRemChk", is_(ast.If, "socket.remote_key in self._remote_sockets")),
        ("disconnect", "dRemRm", is_(ast.Expr, "self._remote_sockets.remove(socket.remote_key)")),
        ("disconnect", "dPopRecv", is_(ast.Expr, "self._recv_callbacks.pop(socket.key, None)")),
        ("disconnect", "dPopLost", is_(ast.Expr, "self._conn_lost_callbacks.pop(socket.key, None)")),
    ]


# the order of the shared accesses inside each method that the model was written from
EXPECTED_ORDER = {
    "connect": ["call:_add_callbacks", "cOpen", "cRemote", "call:_wait_for_remote"],
    "_add_callbacks": ["cCbRecv", "cCbLost"],
    "_wait_for_remote": ["cWaitOpen", "cWaitRemote"],
    "is_connected": ["sCheck"],
    "send": ["sCb", "sCall", "sLock", "sAppend"],
    "recv": ["rLock", "rRead", "rLen", "rLock2", "rPop"],
    "disconnect": ["dLock", "dLostGet", "dLostCall", "dOpenChk", "dOpenRm", "dRemChk", "dRemRm", "dPopRecv",
                   "dPopLost"],
}


def locate(path=None, strict=True):
    """returns (line -> kind, with_lines: set of `with self._lock` lines, order: method -> [kinds])"""
    path = path or HUB_FILE
    tree = ast.parse(open(path).read())
    cls = [n for n in tree.body if isinstance(n, ast.ClassDef) and n.name == "_SocketHub"]
    if not cls:
        raise TieBroken("class _SocketHub not found")
    methods = {n.name: n for n in cls[0].body if isinstance(n, ast.FunctionDef)}
    pats = _patterns()
    line_kind, with_lines, order = {}, set(), {}
    for mname in METHODS:
        if mname not in methods:
            raise TieBroken("method %s not found" % mname)
        seq = []
        for st in _stmts(methods[mname].body):
            h = _header(st)
            kind = None
            for pm, pk, pred in pats:
                if pm == mname and pred is not None and pred(st, h):
                    kind = pk
            if kind is None and mname == "recv" and isinstance(st, ast.With) and "self._lock" in h:
                body = " ".join(_src(b) for b in st.body)
                if "messages = self._messages[socket.key]" in body:
                    kind = "rLock"
                elif "messages.pop(0)" in body:
                    kind = "rLock2"
            if kind is None and mname == "connect" and isinstance(st, ast.Expr) and \
                    h in ("self._add_callbacks(socket)", "self._wait_for_remote(socket, timeout=timeout)"):
                seq.append("call:" + h.split("(")[0].split(".")[1])
                continue
            touches = any(("self." + s) in h for s in SHARED) or "messages" in h.replace("self._messages", "") \
                or h.startswith("method(")
            if kind is None:
                if touches and "_logger" not in h and strict:
                    raise TieBroken("unmodelled access to shared state in %s line %d: %s" % (mname, st.lineno, h))
                if isinstance(st, ast.With) and "self._lock" in h:
                    # non-strict mode (tie already broken): still never run into a held lock
                    line_kind[st.lineno] = "xLock"
                    with_lines.add(st.lineno)
                continue
            if st.lineno in line_kind and strict:
                raise TieBroken("two steps on line %d" % st.lineno)
            if getattr(st, "end_lineno", st.lineno) != st.lineno and not isinstance(st, (ast.If, ast.With)) and strict:
                raise TieBroken("step %s spans several lines" % kind)
            line_kind[st.lineno] = kind
            seq.append(kind)
            if isinstance(st, ast.With):
                with_lines.add(st.lineno)
        order[mname] = seq
    for mname, exp in EXPECTED_ORDER.items():
        if strict and order.get(mname) != exp:
            raise TieBroken("shared accesses of %s are %s, the model has %s" % (mname, order.get(mname), exp))
    for name in ("_CONNECT_SLEEP_TIME", "_RECV_SLEEP_TIME"):
        if not hasattr(SH._SocketHub, name):
            raise TieBroken("sleep constant %s not found" % name)
    return line_kind, with_lines, order


# ------------------------------------------------------------------ scheduler


class Abort(BaseException):
    pass


class Stuck(Exception):
    pass


def node_name(i):
    return "n%d" % i


def key_json(key):
    return [int(key[0][1:]), int(key[1][1:]), key[2]]


HEADER = 7      # header of every structured message the harness sends


def decode(msg):
    """canonical form of what travels through a channel (the model's `Wire`): a non-negative int for a plain
    string ("" = 0, "m<id>" = id), [header, payload] for a string that json-loads to a structured message"""
    if isinstance(msg, StructuredMessage):
        return [int(msg.header), int(msg.payload)]
    if isinstance(msg, str) and msg.startswith("{"):
        d = json.loads(msg)
        return [int(d["header"]), int(d["payload"])]
    if isinstance(msg, str) and msg.startswith("m"):
        return int(msg[1:])
    if msg == "":
        return 0      # message id 0 is the EMPTY STRING: falsy, but a legal payload of ThreadSocket.send
    return -1


def encode_plain(m):
    return "" if m == 0 else "m%d" % m


def settable_properties():
    """every public property of ThreadSocket that has a setter (today: use_callbacks) — the attribute routes an
    application can take after construction"""
    out = []
    for name in dir(ThreadSocket):
        if name.startswith("_"):
            continue
        a = getattr(ThreadSocket, name, None)
        if isinstance(a, property) and a.fset is not None:
            out.append(name)
    return out


def _items(v):
    """the messages of an inbox, whatever container the hub uses (list today; a queue.Queue has `.queue`)"""
    if hasattr(v, "queue") and not isinstance(v, (list, tuple)):
        return list(v.queue)
    return list(v)


def op_keys(t, op):
    """the socket keys (as int triples) an operation of thread t works on"""
    if op[0] in ("bc", "bs", "br", "brn"):
        return [(t, r, op[2]) for r in op[-1]]
    return [(t, op[1], op[2])]


class Sock(ThreadSocket):
    """ThreadSocket with recording callbacks (a strong reference is kept for the whole case)."""

    def __init__(self, sched, *a, **kw):
        self._sched = sched
        self.inc_cb = bool(kw.get("use_callbacks", False))   # delivery mode of this incarnation of the key
        self.t_open = None          # scheduler clock when the constructor (connect) returned
        self.t_close_start = None   # ... when disconnect was called
        self.t_closed = None        # ... when disconnect returned
        super().__init__(*a, **kw)

    def recv_callback(self, msg):
        k = tuple(key_json(self.key))
        self._sched.cb_store.setdefault(k, []).append(decode(msg))
        self._sched.delivery.setdefault(k, []).append(("cb", decode(msg)))
        # which incarnation's callback ran; attributed to the send of the calling thread when it is that message
        # (always, on the code as it is), otherwise matched after the run (`_sends_and_incs`)
        ev = getattr(threading.current_thread(), "cur_send", None)
        mine = ev is not None and ev["key"] == k and ev["m"] == decode(msg) and ev["path"] is None
        if mine:
            ev["path"], ev["target"] = "cb", self
        self._sched.cb_log.setdefault(k, []).append((decode(msg), self, mine))

    def conn_lost_callback(self):
        self._sched.lost_log.append(key_json(self.key))

    # socket-level calls: results and send events are recorded here so that sends issued by a broadcast channel
    # (one `socket.send` per remote) are observed one by one, like the model's results
    def _send_common(self, structured, arg, wire):
        w, s = threading.current_thread(), self._sched
        kj = key_json(self.key)
        rk = tuple(key_json(self.remote_key))
        w.cur_key = kj
        w.inflight = (rk, wire)
        ev = {"key": rk, "m": wire, "start": s.clock, "end": None, "ok": False, "path": None, "target": None}
        w.cur_send = ev
        try:
            if structured:
                ThreadSocket.send_structured(self, arg)
            else:
                ThreadSocket.send(self, arg)
            w.res.append(["sent", kj, wire])
            ev["ok"] = True
        except ConnectionError:
            w.res.append(["connErr", kj])
            raise
        except Abort:
            raise
        except Exception as e:  # noqa  -- the hub itself failed: a finding, not a harness error
            w.res.append(["raised", kj, type(e).__name__])
            s.unexpected.append({"thread": w.tid, "op": "send %s on %s" % (wire, kj),
                                 "error": "%s: %s" % (type(e).__name__, e)})
        finally:
            ev["end"] = s.clock
            s.sends.append(ev)
            w.cur_send = None
            w.inflight = None

    def send(self, msg):
        self._send_common(False, msg, decode(msg))

    def send_structured(self, msg):
        self._send_common(True, msg, [int(msg.header), int(msg.payload)])

    def recv(self, *a, **kw):
        threading.current_thread().cur_key = key_json(self.key)
        return ThreadSocket.recv(self, *a, **kw)

    def recv_structured(self, *a, **kw):
        threading.current_thread().cur_key = key_json(self.key)
        return ThreadSocket.recv_structured(self, *a, **kw)


def _sock_factory(app_name, remote_app_name, **kw):
    """what `BroadcastChannelBySockets.__init__` calls for every remote"""
    w = threading.current_thread()
    s = w.sched
    key = (app_name, remote_app_name, kw.get("socket_id", 0))
    kj = key_json(key)
    w.cur_key = kj
    sock = Sock(s, app_name, remote_app_name, **kw)
    sock.t_open = s.clock
    w.socks[(kj[1], kj[2])] = sock
    s.all_socks.append(sock)
    s.incarnations.setdefault(tuple(kj), []).append(sock)
    w.res.append(["connected", kj])
    return sock


class Chan(ThreadBroadcastChannel):
    """the real ThreadBroadcastChannel, with the recording socket class"""
    _socket_class = staticmethod(_sock_factory)


class Worker(threading.Thread):
    def __init__(self, sched, tid, prog):
        super().__init__(daemon=True)
        self.sched, self.tid, self.prog = sched, tid, prog
        self.sem = threading.Semaphore(0)
        self.count = 0          # number of parks so far
        self.line = None        # line the thread is parked in front of
        self.done = False
        self.abort = False
        self.error = None
        self.res = []
        self.socks = {}
        self.chans = {}
        self.cur_key = None
        self.cur_op = None
        self.inflight = None
        self.held = set()
        self.cur_nonblock = False
        self.op_start = 0
        self.cur_send = None
        self.nb_seen = []       # (key, queue length at the start of a non-blocking recv, outcome)

    # -- tracing
    def gtrace(self, frame, event, arg):
        co = frame.f_code
        if co.co_filename == HUB_FILE and (self.sched.coarse or co.co_name in METHODS):
            return self.ltrace
        if self.sched.coarse and co.co_name == "__init__":
            # a library constructor reached FROM hub code (first use of a channel builds its container there)
            f = frame.f_back
            depth = 0
            while f is not None and depth < 6:
                if f.f_code.co_filename == HUB_FILE:
                    return self.ltrace
                f, depth = f.f_back, depth + 1
        return None

    def ltrace(self, frame, event, arg):
        if event == "line":
            ln = frame.f_lineno
            if frame.f_code.co_filename != HUB_FILE:
                self.park(-(1000 + ln))     # inside a constructor called from the hub (never a lock line of the hub)
                return self.ltrace
            if self.sched.coarse or ln in self.sched.line_kind:
                if ln in self.sched.with_lines:
                    if ln in self.held:        # the line event of leaving the `with` block
                        self.held.discard(ln)
                        return self.ltrace
                    self.park(ln)
                    self.held.add(ln)
                else:
                    self.park(ln)
        return self.ltrace

    def park(self, ln):
        s = self.sched
        with s.cv:
            self.line = ln
            self.count += 1
            s.cv.notify_all()
        self.sem.acquire()
        if self.abort:
            raise Abort()

    # -- the endpoint program
    def run(self):
        sys.settrace(self.gtrace)
        try:
            for op in self.prog:
                self.do(op)
        except Abort:
            pass
        except BaseException as e:  # noqa
            self.error = e
        finally:
            sys.settrace(None)
            with self.sched.cv:
                self.done = True
                self.line = None
                self.sched.cv.notify_all()

    def do(self, op):
        s = self.sched
        if op[0] == "b":            # harness-level barrier (coarse exploration): wait for the scheduler
            self.cur_op, self.cur_key, self.cur_nonblock = "b", None, False
            self.park(BARRIER)
            return
        kind, rn, sid = op[0], op[1], op[2]
        self.cur_op, self.held = ("c" if kind == "bc" else kind), set()
        self.cur_nonblock = kind == "r" and not op[3]
        self.op_start = self.count
        if kind == "bc":            # ThreadBroadcastChannel(app, remotes, socket_id=sid): one connect per remote
            self.chans[sid] = Chan(node_name(self.tid), [node_name(r) for r in op[3]], socket_id=sid)
            return
        if kind == "bs":            # channel.send(msg): socket.send for every remote, first ConnectionError aborts
            self.cur_key = key_json((node_name(self.tid), node_name(op[4][0]), sid))
            try:
                self.chans[sid].send(encode_plain(op[3]))
            except ConnectionError:
                pass
            return
        if kind == "brn":           # channel.recv(block=False): one round of non-blocking receives (after F48)
            keys = [(node_name(self.tid), node_name(r), sid) for r in op[3]]
            queued = sum(len(_items(hub_in_use()._messages.get(k, ()))) for k in keys)
            self.cur_key = key_json(keys[0])
            self.cur_nonblock = True
            try:
                name, msg = self.chans[sid].recv(block=False)
                kj = key_json((node_name(self.tid), name, sid))
                s.delivery.setdefault(tuple(kj), []).append(("pop", decode(msg)))
                self.res.append(["gotStr", kj, decode(msg)])
                s.brn.append({"thread": self.tid, "queued": queued, "got": decode(msg)})
            except RuntimeError as e:
                if "No message broadcasted" not in str(e):
                    raise
                self.res.append(["empty", key_json(keys[-1])])      # reported after the last remote was polled
                s.brn.append({"thread": self.tid, "queued": queued, "got": None})
            return
        if kind == "br":            # channel.recv(block=True): poll the remotes
            self.cur_key = key_json((node_name(self.tid), node_name(op[4][0]), sid))
            name, msg = self.chans[sid].recv(block=bool(op[3]))
            kj = key_json((node_name(self.tid), name, sid))
            s.delivery.setdefault(tuple(kj), []).append(("pop", decode(msg)))
            self.res.append(["gotStr", kj, decode(msg)])
            return
        key = (node_name(self.tid), node_name(rn), sid)
        kj = key_json(key)
        self.cur_key = kj
        structured = bool(op[4]) if len(op) > 4 and kind in ("s", "r") else False
        if kind == "c":
            _sock_factory(node_name(self.tid), node_name(rn), socket_id=sid, use_callbacks=bool(op[3]))
            return
        sock = self.socks.get((rn, sid))
        if sock is None:
            raise RuntimeError("harness: operation on a socket that was never connected")
        if kind == "s":
            m = op[3]
            try:
                if structured:
                    sock.send_structured(StructuredMessage(header=HEADER, payload=m))
                else:
                    sock.send(encode_plain(m))
            except ConnectionError:
                pass
        elif kind == "r":
            block = bool(op[3])
            queue = _items(hub_in_use()._messages.get(key, ()))
            q0 = len(queue)
            head = decode(queue[0]) if q0 else None      # only the owner pops: the head is stable
            try:
                msg = sock.recv_structured(block=block) if structured else sock.recv(block=block)
                m = decode(msg)
                s.delivery.setdefault(tuple(kj), []).append(("pop", m))
                self.res.append(["gotStructured", kj, m] if structured else ["gotStr", kj, m])
                out = "got"
            except RuntimeError as e:
                if "No message to receive" in str(e):
                    self.res.append(["empty", kj])
                    out = "empty"
                else:       # e.g. "Received message of type … instead of str": a message was popped and not returned
                    self.res.append(["recvRaised", kj, "RuntimeError"])
                    out = "raised"
                    s.unexpected.append({"thread": self.tid, "op": "recv(block=%s) on %s" % (block, kj),
                                         "error": "RuntimeError(%s)" % e})
            except ConnectionError as e:        # not raised by the code as it is: a recv that gives up
                left = [decode(x) for x in _items(hub_in_use()._messages.get(key, ()))]
                self.res.append(["recvRaised", kj, "ConnectionError"])
                out = "raised"
                if left:
                    s.unexpected.append({"thread": self.tid, "op": "recv(block=%s) on %s" % (block, kj),
                                         "error": "ConnectionError(%s) while %s is still queued for this socket"
                                                  % (e, left)})
            except ValueError as e:     # json.JSONDecodeError: recv_structured popped a string that is no JSON message
                doc = getattr(e, "doc", None)           # the popped string (consumed, not returned)
                s.delivery.setdefault(tuple(kj), []).append(("pop", decode(doc) if doc is not None else head))
                self.res.append(["decodeError", kj])
                out = "got"
            except IndexError:
                self.res.append(["crash", kj])
                out = "crash"
            if not block:
                self.nb_seen.append((kj, q0, out))
        elif kind == "d":
            sock.t_close_start = s.clock
            if len(op) > 3 and op[3]:
                # public setter on the LIVE socket; the hub reads the flag at connect time only
                sock.use_callbacks = not sock.use_callbacks
            hub_in_use().disconnect(sock)
            sock.t_closed = s.clock
            self.res.append(["disconnected", kj])
        elif kind == "w":
            sock.wait()
            self.res.append(["waited", kj])
        elif kind == "u":
            # assign a public attribute / property of the LIVE socket after construction (e.g. use_callbacks): in the
            # code as it is the hub reads such flags at connect time only, so this is no hub operation at all
            sock.attr_assigned = True
            try:
                setattr(sock, op[3], op[4])
            except AttributeError:
                pass            # read-only property
        else:
            raise ValueError(op)


BARRIER = -1

# what `reset_socket_hub()` left behind in the hub that the SOCKETS use (lifecycle across runs in one process)
RESET_FAILURES = []
FORCE_CLEAN = True      # after recording a failed reset, empty the hub by hand so that later cases are independent


def hub_in_use():
    """the hub object ThreadSocket instances really talk to (not necessarily the module global)"""
    return ThreadSocket._SOCKET_HUB


def hub_leftovers(h=None):
    h = h or hub_in_use()
    left = {}
    for name in ("_open_sockets", "_remote_sockets", "_recv_callbacks", "_conn_lost_callbacks"):
        v = getattr(h, name, None)
        if v:
            left[name] = sorted(str(k) for k in v)
    msgs = {str(k): [decode(m) for m in _items(v)] for k, v in getattr(h, "_messages", {}).items() if _items(v)}
    if msgs:
        left["_messages"] = msgs
    if h._lock.locked():
        left["_lock"] = "held"
    return left


def reset_and_check(when):
    """`reset_socket_hub()`, then assert that the hub used by the sockets is empty"""
    SH.reset_socket_hub()
    left = hub_leftovers()
    if left:
        if len(RESET_FAILURES) < 5:
            RESET_FAILURES.append({"what": "reset_socket_hub() %s left state in the hub that ThreadSocket uses "
                                           "(ThreadSocket._SOCKET_HUB is module global: %s)"
                                           % (when, ThreadSocket._SOCKET_HUB is SH._socket_hub), "leftovers": left})
        if FORCE_CLEAN:
            hub_in_use().__init__()


def all_lock_lines(path=None):
    """every `with …_lock…:` line of socket_hub.py (model-free: no knowledge of the methods)"""
    tree = ast.parse(open(path or HUB_FILE).read())
    return {n.lineno for n in ast.walk(tree) if isinstance(n, ast.With) and
            any("_lock" in _src(i.context_expr) for i in n.items)}


class Scheduler:
    def __init__(self, progs, structured_ids=(), coarse=False):
        """coarse=True: model-free mode — every line of socket_hub.py (any function) is a scheduling point"""
        self.coarse = coarse
        if coarse:
            self.line_kind, self.with_lines = {}, all_lock_lines()
        else:
            self.line_kind, self.with_lines, _ = LOCATED
        self.cv = threading.Condition()
        self.cb_store, self.delivery, self.lost_log, self.all_socks = {}, {}, [], []
        self.clock = 0              # number of completed steps
        self.incarnations, self.sends, self.cb_log = {}, [], {}
        self.unexpected = []
        self.brn = []
        self._structured = set(structured_ids)
        SH._SocketHub._CONNECT_SLEEP_TIME = 0
        SH._SocketHub._RECV_SLEEP_TIME = 0
        reset_and_check("before a run")
        self.hub = hub_in_use()
        self.holder = None
        self.workers = [Worker(self, t, p) for t, p in enumerate(progs)]
        for w in self.workers:   # one at a time: run up to the first shared access
            w.start()
            with self.cv:
                if not self.cv.wait_for(lambda: w.count > 0 or w.done, timeout=10):
                    raise Stuck("thread %d did not reach the hub" % w.tid)

    def structured(self, a, b, sid):
        return (min(a, b), max(a, b), sid) in self._structured

    def kind(self, tid):
        w = self.workers[tid]
        if w.done:
            return None
        if self.coarse:
            return "barrier" if w.line == BARRIER else ("xLock" if w.line in self.with_lines else "line")
        k = self.line_kind[w.line]
        return "wCheck" if k == "sCheck" and w.cur_op == "w" else k

    def at_barrier(self, tid):
        w = self.workers[tid]
        return not w.done and w.line == BARRIER

    def enabled(self, tid):
        w = self.workers[tid]
        if w.done:
            return False
        return not (self.kind(tid) in LOCK_KINDS and self.hub._lock.locked())

    def step(self, tid):
        w = self.workers[tid]
        k = self.kind(tid)
        c = w.count
        w.sem.release()
        with self.cv:
            if not self.cv.wait_for(lambda: w.count > c or w.done, timeout=4):
                raise Stuck("thread %d did not come back from line %s" % (tid, w.line))
        self.clock += 1
        if w.error is not None:
            raise w.error
        if not self.hub._lock.locked():
            self.holder = None
        elif k in LOCK_KINDS:
            self.holder = tid

    def snapshot(self, ok=True):
        h = self.hub
        ks = lambda coll: sorted(key_json(k) for k in coll)  # noqa
        pcs = []
        for w in self.workers:
            pcs.append(["fin"] if w.done else [self.kind(w.tid), w.cur_key])
        return {
            "ok": ok,
            "open": ks(h._open_sockets), "remote": ks(h._remote_sockets),
            "msgs": sorted([key_json(k), [decode(m) for m in _items(v)]] for k, v in h._messages.items() if _items(v)),
            "rcb": ks(h._recv_callbacks.keys()), "lcb": ks(h._conn_lost_callbacks.keys()),
            "lock": self.holder,
            "pcs": pcs,
            "res": [[list(r) for r in w.res] for w in self.workers],
            "cb": sorted([list(k), list(v)] for k, v in self.cb_store.items() if v),
            "lost": [list(k) for k in self.lost_log],
            "enabled": [t for t in range(len(self.workers)) if self.enabled(t)],
        }

    def finish(self):
        for w in self.workers:
            if not w.done:
                w.abort = True
                w.sem.release()
        for w in self.workers:
            w.join(timeout=10)
            if w.is_alive():
                raise Stuck("thread %d did not terminate" % w.tid)
        final_queues = {tuple(key_json(k)): [decode(m) for m in _items(v)] for k, v in self.hub._messages.items()
                        if _items(v)}
        SH.reset_socket_hub()
        # drop every reference to the socket objects NOW (their __del__ calls hub.disconnect; it must hit the
        # freshly reset hub, not the hub of a later case)
        self.all_socks.clear()
        self.incarnations.clear()
        self.cb_log.clear()
        for ev in self.sends:
            ev["target"] = None
        for w in self.workers:
            w.socks.clear()
            w.chans.clear()
            w.cur_send = None
        reset_and_check("after a run")
        return final_queues


LOCATED = None


def ensure_located():
    global LOCATED
    if LOCATED is None:
        LOCATED = locate()
    return LOCATED


CANON_KEYS = ("ok", "open", "remote", "msgs", "rcb", "lcb", "lock", "pcs", "res", "cb", "lost", "enabled")


def canon_model(snap):
    """the driver's snapshot in the harness' canonical form"""
    out = {k: snap[k] for k in CANON_KEYS}
    out["open"], out["remote"] = sorted(snap["open"]), sorted(snap["remote"])
    out["rcb"], out["lcb"] = sorted(snap["rcb"]), sorted(snap["lcb"])
    out["msgs"], out["cb"] = sorted(snap["msgs"]), sorted(snap["cb"])
    return out


def ops_json(prog):
    """the endpoint program in the SOCKET-LEVEL operations of Model/ThreadSocket.lean (compiled by the driver)"""
    out = []
    for op in prog:
        k = op[0]
        if k == "c":
            out.append({"c": [op[1], op[2], int(op[3])]})
        elif k == "s":
            if len(op) > 4 and op[4]:
                out.append({"ss": [op[1], op[2], HEADER, op[3]]})
            else:
                out.append({"s": [op[1], op[2], op[3]]})
        elif k == "r":
            out.append({("rs" if len(op) > 4 and op[4] else "r"): [op[1], op[2], int(op[3])]})
        elif k == "d":       # the "toggle use_callbacks" flag of a disconnect is invisible to the hub
            out.append({"d": [op[1], op[2]]})
        elif k == "w":
            out.append({"w": [op[1], op[2]]})
        elif k == "u":
            pass        # assigning an attribute of the live socket: no hub operation in the code as it is
        elif k == "bc":
            out += [{"c": [r, op[2], 0]} for r in op[3]]
        elif k == "bs":
            out.append({"bs": [op[2], op[3]] + list(op[4])})
        elif k == "br":
            out.append({"br": [op[2], int(op[3])] + list(op[4])})
        elif k == "brn":
            out.append({"br": [op[2], 0] + list(op[3])})
    return out


# ------------------------------------------------------------------ running one case


def _sends_and_incs(sc):
    """picklable incarnation table and send events; the delivery path of a send is attributed AFTER the run:
    per channel the callback log is matched in order against the successful sends (whichever thread ran the
    callback), everything else went to the queue path (or nowhere: the exactly-once rule catches that)"""
    incs = {k: [{"cb": so.inc_cb, "open": so.t_open, "close_start": so.t_close_start, "closed": so.t_closed,
                 "assigned": bool(getattr(so, "attr_assigned", False))}
                for so in v] for k, v in sc.incarnations.items()}
    loose = {k: [e for e in v if not e[2]] for k, v in sc.cb_log.items()}   # callbacks run by another thread
    sends = []
    for ev in sc.sends:
        k = ev["key"]
        lst = sc.incarnations.get(k, [])
        path, ti = None, None
        if ev["path"] == "cb":
            path, ti = "cb", (lst.index(ev["target"]) if ev["target"] in lst else -1)
        elif ev["ok"]:
            for j, e in enumerate(loose.get(k, [])):
                if e[0] == ev["m"]:
                    path, ti = "cb", (lst.index(e[1]) if e[1] in lst else -1)
                    del loose[k][j]
                    break
        sends.append({"key": k, "m": ev["m"], "start": ev["start"], "end": ev["end"], "ok": ev["ok"],
                      "path": path, "target_inc": ti})
    return incs, sends


def run_case(progs, policy, structured_ids=(), max_steps=400, keep_sockets=None):
    """policy(sched, i, last) -> tid or None (stop). Returns a dict with the schedule actually executed,
    the real snapshots (initial + after every step) and what the oracle needs."""
    ensure_located()
    sc = Scheduler(progs, structured_ids)
    snaps = [sc.snapshot()]
    schedule = []
    ever_open_at = {}
    last = None
    try:
        for i in range(max_steps):
            tid = policy(sc, i, last)
            if tid is None:
                break
            if not sc.enabled(tid):
                raise Stuck("policy chose a disabled thread")
            sc.step(tid)
            schedule.append(tid)
            last = tid
            sn = sc.snapshot()
            snaps.append(sn)
            for k in sn["open"]:
                ever_open_at.setdefault(tuple(k), i)
        stuck_in_connect = [(w.tid, w.cur_key) for w in sc.workers if not w.done and w.cur_op == "c"]
        nb_blocked = [(w.tid, w.cur_key, w.count - w.op_start) for w in sc.workers
                      if not w.done and w.cur_nonblock and w.count - w.op_start >= 8]
        workers = sc.workers
        incs, sends = _sends_and_incs(sc)
        if keep_sockets is not None:
            keep_sockets.extend(sc.all_socks)     # the caller keeps the sockets of this run alive (no __del__)
    finally:
        final_queues = sc.finish()
    return {"progs": progs, "structured": sorted(structured_ids), "schedule": schedule, "snaps": snaps,
            "final_queues": final_queues, "delivery": sc.delivery, "cb_store": sc.cb_store,
            "res": [w.res for w in workers], "inflight": [w.inflight for w in workers],
            "nb_seen": [x for w in workers for x in w.nb_seen],
            "incarnations": incs, "sends": sends, "unexpected": list(sc.unexpected), "brn": list(sc.brn),
            "stuck_in_connect": stuck_in_connect, "nb_blocked": nb_blocked, "ever_open_at": ever_open_at,
            "steps_of": [schedule.count(t) for t in range(len(progs))]}


def compare(case, model):
    """lock-step comparison; returns None or the first difference"""
    real = case["snaps"]
    msnaps = [model["init"]] + model["steps"]
    if len(msnaps) != len(real):
        return {"step": -1, "why": "length", "model": len(msnaps), "code": len(real)}
    for i, (r, m) in enumerate(zip(real, msnaps)):
        cm = canon_model(m)
        if cm != r:
            diff = {k: {"model": cm[k], "code": r[k]} for k in CANON_KEYS if cm[k] != r[k]}
            return {"step": i, "thread": case["schedule"][i - 1] if i else None, "diff": diff}
    return None


# ------------------------------------------------------------------ model-free oracle


def rkey(k):
    return (k[1], k[0], k[2])


def is_shuffle(total, a, b):
    """is `total` an interleaving of `a` and `b` (each kept in order)?"""
    if len(total) != len(a) + len(b):
        return False
    reach = {(0, 0)}
    for x in total:
        nxt = set()
        for i, j in reach:
            if i < len(a) and a[i] == x:
                nxt.add((i + 1, j))
            if j < len(b) and b[j] == x:
                nxt.add((i, j + 1))
        reach = nxt
        if not reach:
            return False
    return (len(a), len(b)) in reach


def oracle(case, settle_steps):
    """Exactly once, in order, per direction and socket id; non-blocking recv on a non-empty queue returns
    a message; rendezvous. Uses only what was observed on the real hub."""
    fails = []
    keys = set()
    for t, prog in enumerate(case["progs"]):
        for op in prog:
            for kk in op_keys(t, op):
                keys.add(kk)
                keys.add(rkey(kk))
    for k in sorted(keys):
        sender = k[1]
        sent = [r[2] for r in case["res"][sender] if r[0] == "sent" and tuple(r[1]) == rkey(k)] \
            if sender < len(case["res"]) else []
        infl = case["inflight"][sender] if sender < len(case["inflight"]) else None
        dl = [m for _, m in case["delivery"].get(k, [])]
        q = case["final_queues"].get(k, [])
        pops = [m for how, m in case["delivery"].get(k, []) if how == "pop"]
        cbs = [m for how, m in case["delivery"].get(k, []) if how == "cb"]
        incs_k = case["incarnations"].get(k, [])
        if len(incs_k) <= 1 or not any(i["cb"] for i in incs_k):
            # one incarnation, or plain in all its incarnations: one global sequence
            ok = dl + q == sent or (infl is not None and infl[0] == k and dl + q == sent + [infl[1]])
        else:
            # several incarnations, some with callbacks: a message sent while the key is being closed is queued and
            # popped by a later incarnation, so only the two paths are ordered: the queue path (pops ++ queue) and
            # the callback path are each exactly-once and in order, and together they are exactly the sent sequence
            ok = is_shuffle(sent, pops + q, cbs) or \
                (infl is not None and infl[0] == k and is_shuffle(sent + [infl[1]], pops + q, cbs))
        if not ok:
            fails.append({"what": "channel %s: delivered %s + queued %s is not the sent sequence %s "
                                  "(exactly once, in order; message 0 is the empty string \"\")" % (list(k), dl, q, sent), "key": list(k)})
    for b in case.get("brn", []):
        if b["queued"] > 0 and b["got"] is None:
            fails.append({"what": "BroadcastChannel.recv(block=False) reported emptiness although %d message(s) were "
                                  "queued for thread %d when the call started" % (b["queued"], b["thread"]),
                          "key": None})
    for u in case.get("unexpected", []):
        fails.append({"what": "thread %d: %s raised %s inside the hub" % (u["thread"], u["op"], u["error"]), "key": None})
    # every message goes to the incarnation of the receiving key that is open while it is sent
    for ev in case["sends"]:
        if not ev["ok"]:
            continue
        incs = case["incarnations"].get(ev["key"], [])
        if ev["path"] == "cb" and ev["target_inc"] is not None and ev["target_inc"] >= 0:
            tgt = incs[ev["target_inc"]]
            if tgt["closed"] is not None and ev["start"] > tgt["closed"]:
                fails.append({"what": "message %s for %s, sent at step %d, was handed to the callback of a socket that "
                                      "had been disconnected at step %d (never queued, never received by the re-opened "
                                      "endpoint)" % (ev["m"], list(ev["key"]), ev["start"], tgt["closed"]),
                              "key": list(ev["key"])})
                continue
        for i, inc in enumerate(incs):
            covers = inc["open"] is not None and inc["open"] < ev["start"] and \
                (inc["close_start"] is None or ev["end"] < inc["close_start"])
            if not covers or inc.get("assigned"):
                continue        # (a socket whose flags were assigned after construction is judged by the order rule alone)
            if inc["cb"] and not (ev["path"] == "cb" and ev["target_inc"] == i):
                fails.append({"what": "message %s for %s was sent while the callback socket (incarnation %d) was open "
                                      "but did not reach its callback" % (ev["m"], list(ev["key"]), i),
                              "key": list(ev["key"])})
            if not inc["cb"] and ev["path"] == "cb":
                fails.append({"what": "message %s for %s was sent while the plain socket (incarnation %d) was open but "
                                      "went to a callback instead of the queue" % (ev["m"], list(ev["key"]), i),
                              "key": list(ev["key"])})
    for kj, q0, out in case["nb_seen"]:
        if q0 > 0 and out != "got":
            fails.append({"what": "non-blocking recv on %s reported %s although %d message(s) were queued"
                                  % (kj, out, q0), "key": kj})
    for tid, kj, n in case["nb_blocked"]:
        fails.append({"what": "non-blocking recv on %s by thread %d has not returned after %d steps "
                              "(it must report emptiness, not block)" % (kj, tid, n), "key": kj})
    n_conn = {}
    for t, prog in enumerate(case["progs"]):
        for op in prog:
            if op[0] in ("c", "bc"):
                for kk in op_keys(t, op):
                    n_conn[kk] = n_conn.get(kk, 0) + 1
    for tid, kj in case["stuck_in_connect"]:
        peer = tuple(rkey(tuple(kj)))
        if n_conn.get(tuple(kj), 0) > 1 or n_conn.get(peer, 0) > 1:
            continue   # after a disconnect the own side has removed the peer's key from _remote_sockets
        at = case["ever_open_at"].get(peer)
        # after the peer published, the waiting thread executes at most cWaitRemote + cWaitOpen + cWaitRemote
        # before it must see the peer
        if at is None:
            continue
        waits = [i for i in range(at + 1, len(case["schedule"])) if case["schedule"][i] == tid and
                 case["snaps"][i]["pcs"][tid] in (["cWaitOpen", kj], ["cWaitRemote", kj])]
        if len(waits) >= 3:
            fails.append({"what": "rendezvous: thread %d still waits in connect(%s) although the peer published "
                                  "its key at step %d of %d" % (tid, kj, at, len(case["schedule"])), "key": kj})
    return fails


# ------------------------------------------------------------------ policies and generators


def scripted(schedule):
    def pol(sc, i, last):
        return schedule[i] if i < len(schedule) else None
    return pol


def forced(schedule):
    """follow `schedule`, skipping entries that name a finished or blocked thread (a forced schedule written
    for another statement order stays usable)"""
    ptr = [0]

    def pol(sc, i, last):
        while ptr[0] < len(schedule) and not sc.enabled(schedule[ptr[0]]):
            ptr[0] += 1
        if ptr[0] >= len(schedule):
            return None
        ptr[0] += 1
        return schedule[ptr[0] - 1]
    return pol


def random_policy(rng, n_main, n_settle):
    """random (sticky) choice among the enabled threads for n_main steps, then round-robin so that every
    thread gets n_settle more steps"""
    def pol(sc, i, last):
        en = [t for t in range(len(sc.workers)) if sc.enabled(t)]
        if not en:
            return None
        if i < n_main:
            if last in en and rng.random() < 0.6:
                return last
            return rng.choice(en)
        if i >= n_main + n_settle * len(sc.workers):
            return None
        nxt = [t for t in en if last is None or t > last]
        return (nxt or en)[0]
    return pol


def _sig(sc):
    h = sc.hub
    return (frozenset(h._open_sockets), frozenset(h._remote_sockets),
            tuple(sorted((k, len(_items(v))) for k, v in h._messages.items() if _items(v))), frozenset(h._recv_callbacks))


def preemptive_policy(preempt, trace):
    """Non-preemptive round-robin baseline (a thread runs until it finishes, blocks, or completes a spin
    iteration that changed nothing) with forced switches `preempt` = {step index: tid}. Stops when every
    enabled thread is spinning on an unchanged state. `trace` collects, per step, the thread chosen and the
    enabled alternatives (for the enumeration)."""
    mark = {}

    def spinning(sc, t, sig):
        return sc.kind(t) in SPIN_KINDS and mark.get(t) == (sc.kind(t), sig)

    def pol(sc, i, last):
        n = len(sc.workers)
        en = [t for t in range(n) if sc.enabled(t)]
        if not en:
            return None
        sig = _sig(sc)
        if all(spinning(sc, t, sig) for t in en) and i not in preempt:
            return None
        if i in preempt and preempt[i] in en:
            choice = preempt[i]
        elif last in en and not spinning(sc, last, sig):
            choice = last
        else:
            cur = last if last is not None else n - 1
            order = [(cur + d) % n for d in range(1, n + 1)]
            cands = [t for t in order if t in en]
            fresh = [t for t in cands if not spinning(sc, t, sig)]
            choice = (fresh or cands)[0]
        if sc.kind(choice) in SPIN_KINDS:
            mark[choice] = (sc.kind(choice), sig)
        trace.append((choice, [t for t in en if t != choice]))
        return choice
    return pol


def explore(progs, structured=(), max_preempt=2, step_cap=160, deadline=None):
    """all schedules of `progs` with at most `max_preempt` forced context switches on top of the
    non-preemptive baseline (stateless search: every schedule is executed from scratch on the real hub)"""
    import time
    seen = set()
    out = []

    def run(pre):
        trace = []
        case = run_case(progs, preemptive_policy(pre, trace), structured, max_steps=step_cap)
        case["trace"] = trace
        case["preempt"] = sorted(pre.items())
        key = tuple(case["schedule"])
        if key in seen:
            return case, False
        seen.add(key)
        out.append(case)
        return case, True

    def rec(pre, case, depth, start):
        if depth >= max_preempt:
            return True
        for i in range(start, len(case["trace"])):
            for t in case["trace"][i][1]:
                if deadline is not None and time.time() > deadline:
                    return False
                p2 = dict(pre)
                p2[i] = t
                c2, _ = run(p2)
                if not rec(p2, c2, depth + 1, i + 1):
                    return False
        return True

    base, _ = run({})
    complete = rec({}, base, 0, 0)
    return out, complete


# ------------------------------------------------------------------ model-free exploration at every-line granularity


def coarse_scenarios():
    """endpoint programs for the model-free stream: concurrent senders towards callback (and plain) receivers;
    ("b",) is a harness barrier: everything before it (the connects) is run fairly, the exploration starts after"""
    B = ("b",)
    return [
        # two senders, one endpoint with two callback sockets
        [[("c", 2, 0, 0), B, ("s", 2, 0, 1), ("s", 2, 0, 2)], [("c", 2, 0, 0), B, ("s", 2, 0, 3)],
         [("c", 0, 0, 1), ("c", 1, 0, 1), B]],
        # two endpoints, both callback sockets, both send
        [[("c", 1, 0, 1), B, ("s", 1, 0, 1)], [("c", 0, 0, 1), B, ("s", 0, 0, 2), ("s", 0, 0, 3)]],
        # two senders, plain receiver that polls
        [[("c", 2, 0, 0), B, ("s", 2, 0, 1), ("s", 2, 0, 0)], [("c", 2, 0, 0), B, ("s", 2, 0, 3)],
         [("c", 0, 0, 0), ("c", 1, 0, 0), B, ("r", 0, 0, 0), ("r", 1, 0, 0), ("r", 0, 0, 0)]],
        # one callback socket, one plain socket on the receiving endpoint
        [[("c", 2, 0, 0), B, ("s", 2, 0, 1)], [("c", 2, 0, 0), B, ("s", 2, 0, 2), ("s", 2, 0, 3)],
         [("c", 0, 0, 1), ("c", 1, 0, 0), B, ("r", 1, 0, 0), ("r", 1, 0, 0)]],
        # the peer sends and DISCONNECTS while the receiver is inside blocking receives: every message sent before
        # the disconnect must be received by a receiver that keeps receiving (receiver first / sender first)
        [[("c", 1, 0, 0), B, ("r", 1, 0, 1), ("r", 1, 0, 1)], [("c", 0, 0, 0), B, ("s", 0, 0, 1), ("s", 0, 0, 2), ("d", 0, 0)]],
        [[("c", 1, 0, 0), B, ("s", 1, 0, 1), ("s", 1, 0, 2), ("s", 1, 0, 3), ("d", 1, 0)],
         [("c", 0, 0, 0), B, ("r", 0, 0, 1), ("r", 0, 0, 1), ("r", 0, 0, 1)]],
        # one side's WHOLE lifetime (connect, sends, disconnect) inside the other side's connect polling: the barrier is
        # the first operation, so the connects are explored too; the late side must still connect ("connected but
        # closed again") and receive everything that was sent to it
        [[B, ("c", 1, 0, 0), ("r", 1, 0, 1), ("r", 1, 0, 1)], [B, ("c", 0, 0, 0), ("s", 0, 0, 1), ("s", 0, 0, 2), ("d", 0, 0)]],
        [[B, ("c", 1, 0, 0), ("s", 1, 0, 1), ("s", 1, 0, 2), ("d", 1, 0)], [B, ("c", 0, 0, 0), ("r", 0, 0, 1), ("r", 0, 0, 1)]],
        # attribute routes: `use_callbacks` assigned on the live socket while a backlog is queued and the peer keeps
        # sending (backlog first, then the later messages — whatever path they take); and the other direction
        [[("c", 1, 0, 0), B, ("u", 1, 0, "use_callbacks", True), ("r", 1, 0, 0), ("r", 1, 0, 0), ("r", 1, 0, 0)],
         [("c", 0, 0, 0), ("s", 0, 0, 1), ("s", 0, 0, 2), B, ("s", 0, 0, 3)]],
        [[("c", 1, 0, 1), B, ("u", 1, 0, "use_callbacks", False), ("r", 1, 0, 0), ("r", 1, 0, 0)],
         [("c", 0, 0, 0), ("s", 0, 0, 1), B, ("s", 0, 0, 2), ("s", 0, 0, 3)]],
        # one side KEEPS its socket object while the peer disconnects and a NEW socket object connects under the same
        # key (callbacks on / off, both directions of the switch); messages before and after the switch: every message
        # sent after the new peer connected must reach the NEW incarnation, exactly once, in order
        [[("c", 1, 0, 1), B, ("d", 1, 0), ("c", 1, 0, 0), ("r", 1, 0, 0), ("r", 1, 0, 0), ("r", 1, 0, 0)],
         [("c", 0, 0, 0), ("s", 0, 0, 1), B, ("s", 0, 0, 2), ("s", 0, 0, 3)]],
        [[("c", 1, 0, 1), B, ("d", 1, 0), ("c", 1, 0, 1)],
         [("c", 0, 0, 0), ("s", 0, 0, 1), B, ("s", 0, 0, 2), ("s", 0, 0, 3)]],
        [[("c", 1, 0, 0), B, ("d", 1, 0), ("c", 1, 0, 1)],
         [("c", 0, 0, 0), ("s", 0, 0, 1), B, ("s", 0, 0, 2), ("s", 0, 0, 3)]],
        [[("c", 1, 0, 0), B, ("d", 1, 0), ("c", 1, 0, 0), ("r", 1, 0, 0), ("r", 1, 0, 0), ("r", 1, 0, 0)],
         [("c", 0, 0, 0), ("s", 0, 0, 1), B, ("s", 0, 0, 2), ("s", 0, 0, 3)]],
        # FIRST use of a channel: the first send races the first receive (receiver first in the baseline)
        [[("c", 1, 0, 0), B, ("r", 1, 0, 0), ("r", 1, 0, 0), ("r", 1, 0, 0)], [("c", 0, 0, 0), B, ("s", 0, 0, 1), ("s", 0, 0, 2)]],
        # two socket ids between the same pair, callback receivers, senders in both directions
        [[("c", 1, 0, 1), ("c", 1, 1, 1), B, ("s", 1, 0, 1), ("s", 1, 1, 2)],
         [("c", 0, 0, 1), ("c", 0, 1, 1), B, ("s", 0, 1, 3), ("s", 0, 0, 4)]],
    ]


def coarse_run(progs, preempt, step_cap=600):
    """Run `progs` on the real hub with EVERY line of socket_hub.py as a scheduling point. Connect phase:
    round-robin up to the barrier. Then: threads run to completion in thread order, except that at step i
    (counted from the barrier) the scheduler switches to thread preempt[i]. Returns an oracle-ready case."""
    sc = Scheduler(progs, (), coarse=True)
    n = len(progs)
    schedule, trace = [], []
    try:
        guard = 0
        while True:
            act = [t for t in range(n) if not sc.workers[t].done and not sc.at_barrier(t)]
            if not act:
                break
            progressed = False
            for t in act:
                if sc.enabled(t) and not sc.at_barrier(t):
                    sc.step(t)
                    progressed = True
            guard += 1
            if guard > 4000 or not progressed:
                raise Stuck("coarse setup phase does not reach the barrier")
        cur, i = None, 0
        seen, last_sig = {}, None      # (thread -> lines visited since the shared state last changed): spin detection
        while i < step_cap:
            en = [t for t in range(n) if sc.enabled(t)]
            if not en:
                break
            sig = _sig(sc)
            if sig != last_sig:
                seen, last_sig = {}, sig

            def spinning(t):     # the same line again and again inside ONE operation while nothing changes (a generator
                w = sc.workers[t]  # expression revisits its line a few times, a polling loop for ever)
                return seen.get((t, len(w.res)), {}).get(w.line, 0) >= 6

            if all(spinning(t) for t in en) and i not in preempt:
                break                   # every thread that can run only polls an unchanged state (blocking recv / wait)
            if i in preempt and preempt[i] in en:
                cur = preempt[i]
            elif cur is None or cur not in en or spinning(cur):
                # a thread that completed a polling round without any change yields to the next one
                start = 0 if cur is None else cur + 1
                order = [(start + d) % n for d in range(n)]
                cands = [t for t in order if t in en]
                cur = ([t for t in cands if not spinning(t)] or cands)[0]
            trace.append((cur, [t for t in en if t != cur]))
            ek = (cur, len(sc.workers[cur].res))
            seen.setdefault(ek, {})
            seen[ek][sc.workers[cur].line] = seen[ek].get(sc.workers[cur].line, 0) + 1
            sc.step(cur)
            schedule.append(cur)
            i += 1
        workers = sc.workers
        incs, sends = _sends_and_incs(sc)
        unfinished = [(w.tid, {"c": "connect", "s": "send", "r": "recv", "d": "disconnect", "w": "wait", "u": "setattr",
                               "b": "barrier"}.get(w.cur_op, w.cur_op), w.cur_key) for w in workers if not w.done]
    finally:
        final_queues = sc.finish()
    return {"progs": [[op for op in p if op[0] != "b"] for p in progs], "structured": [], "schedule": schedule,
            "preempt": sorted(preempt.items()), "trace": trace, "snaps": [],
            "final_queues": final_queues, "delivery": sc.delivery, "cb_store": sc.cb_store,
            "res": [w.res for w in workers], "inflight": [w.inflight for w in workers],
            "nb_seen": [x for w in workers for x in w.nb_seen], "incarnations": incs, "sends": sends,
            "unexpected": list(sc.unexpected), "stuck_in_connect": [], "nb_blocked": [], "ever_open_at": {}, "unfinished": unfinished}


def coarse_oracle(case):
    fails = oracle(case, 0)
    if case["unfinished"]:
        fails.append({"what": "threads did not finish although every other thread is done or only polls an unchanged "
                              "hub: %s (thread, operation it hangs in, socket key)" % case["unfinished"],
                      "key": None})
    return fails


def worker_coarse(args):
    """model-free: all schedules with one forced switch after the barrier + `n_two` random ones with two"""
    scen_ids, n_two, seed, deadline = args
    import random
    import time
    import traceback
    summary = _new_summary()
    rng = random.Random(seed)
    try:
        scen = coarse_scenarios()
        for si in scen_ids:
            progs = scen[si]
            base = coarse_run(progs, {})
            runs = [base]
            for i, (_, alts) in enumerate(base["trace"]):
                for t in alts:
                    if time.time() > deadline:
                        break
                    runs.append(coarse_run(progs, {i: t}))
            for _ in range(n_two):
                if time.time() > deadline or len(base["trace"]) < 2:
                    break
                i = rng.randrange(len(base["trace"]))
                j = rng.randrange(i + 1, len(base["trace"]) + 8)
                n = len(progs)
                runs.append(coarse_run(progs, {i: rng.randrange(n), j: rng.randrange(n)}))
            for c in runs:
                summary["evaluations"] += 1
                summary["steps"] += len(c["schedule"])
                summary["dist"]["coarse-every-line-schedules"] = summary["dist"].get("coarse-every-line-schedules", 0) + 1
                summary["nontrivial"].add(json.dumps(["coarse", si, c["preempt"]]))
                for f in coarse_oracle(c):
                    if len(summary["failures"]) < 5:
                        summary["failures"].append({"what": f["what"] + " [every line of socket_hub.py is a "
                                                    "scheduling point]", "kf": None, "input": {
                            "progs (b = barrier after the connects)": progs, "forced switches after the barrier":
                            c["preempt"], "schedule after the barrier": c["schedule"], "key": f["key"]}})
                    else:
                        summary["n_failures_more"] += 1
        _report_resets(summary)
    except Stuck as e:
        summary["dist"]["coarse-stuck"] = summary["dist"].get("coarse-stuck", 0) + 1
        summary["error_note"] = "Stuck: %s" % e
    except Exception:
        summary["error"] = traceback.format_exc()
    summary["nontrivial"] = sorted(summary["nontrivial"])
    return summary


# ------------------------------------------------------------------ workers (one process each)


def _check_cases(cases, driver, summary, settle):
    models = driver.batch([{"op": "hub.run", "progs": [ops_json(p) for p in c["progs"]], "sched": c["schedule"]}
                           for c in cases])
    for c, m in zip(cases, models):
        summary["evaluations"] += 1
        summary["steps"] += len(c["schedule"])
        n_msgs = sum(1 for r in c["res"] for x in r if x[0] in ("sent", "gotStr", "gotStructured"))
        if n_msgs:
            summary["nontrivial"].add(json.dumps([c["progs"], c["schedule"]]))
        for r in c["res"]:
            for x in r:
                summary["dist"]["result:" + x[0]] = summary["dist"].get("result:" + x[0], 0) + 1
        for sn in c["snaps"][1:]:
            pass
        summary["dist"]["threads:%d" % len(c["progs"])] = summary["dist"].get("threads:%d" % len(c["progs"]), 0) + 1
        if c["cb_store"]:
            summary["dist"]["callback-delivery"] = summary["dist"].get("callback-delivery", 0) + 1
        if any(r[0] == "gotStructured" for rs in c["res"] for r in rs):
            summary["dist"]["structured"] = summary["dist"].get("structured", 0) + 1
        if any(r[0] == "decodeError" for rs in c["res"] for r in rs):
            summary["dist"]["recv_structured-on-plain-string"] = summary["dist"].get("recv_structured-on-plain-string", 0) + 1
        if any(op[0] in ("bs", "br") for p in c["progs"] for op in p):
            summary["dist"]["broadcast"] = summary["dist"].get("broadcast", 0) + 1
        if any(op[0] == "u" for p in c["progs"] for op in p):
            summary["dist"]["attribute-assigned-after-construction"] = \
                summary["dist"].get("attribute-assigned-after-construction", 0) + 1
        if any(op[0] == "w" for p in c["progs"] for op in p):
            summary["dist"]["wait"] = summary["dist"].get("wait", 0) + 1
        if any(sum(1 for o in p if o[0] == "c" and (o[1], o[2]) == (q[1], q[2])) > 1 for p in c["progs"] for q in p
               if q[0] == "c"):
            summary["dist"]["reconnect-history"] = summary["dist"].get("reconnect-history", 0) + 1
        if any(r[0] in ("sent", "gotStr") and r[2] == 0 for rs in c["res"] for r in rs):
            summary["dist"]["empty-string-message"] = summary["dist"].get("empty-string-message", 0) + 1
        if "error" in m:
            df = {"step": -1, "why": m["error"]}
        else:
            df = compare(c, m)
        if df is not None and len(summary["disagreements"]) < 5:
            summary["disagreements"].append({"stream": "hub.lockstep", "input": {
                "progs": c["progs"], "structured": c["structured"], "schedule": c["schedule"]},
                "model": "see diff", "code": df})
        elif df is not None:
            summary["n_disagreements_more"] += 1
        for f in oracle(c, settle):
            if len(summary["failures"]) < 5:
                summary["failures"].append({"what": f["what"], "kf": f.get("kf"), "input": {
                    "progs": c["progs"], "structured": c["structured"], "schedule": c["schedule"], "key": f["key"]}})
            else:
                summary["n_failures_more"] += 1
        if len(summary["samples"]) < 2 and n_msgs >= 3:
            summary["samples"].append({"progs": c["progs"], "schedule": c["schedule"], "results": c["res"]})


def _new_summary():
    return {"evaluations": 0, "steps": 0, "nontrivial": set(), "dist": {}, "disagreements": [], "failures": [],
            "samples": [], "n_disagreements_more": 0, "n_failures_more": 0, "pairs_complete": 0, "pairs_partial": 0,
            "error": None}


def worker_random(args):
    seed, n_cases, n_main, settle = args
    import random
    import traceback
    summary = _new_summary()
    try:
        ensure_located()
        rng = random.Random(seed)
        driver = common.Driver()
        cases = []
        n_stuck = 0
        for _ in range(n_cases):
            progs, st = gen_programs(rng)
            try:
                cases.append(run_case(progs, random_policy(rng, rng.choice([20, 40, n_main]), settle), st,
                                      max_steps=600))
            except Stuck as e:
                n_stuck += 1
                summary["disagreements"].append({"stream": "hub.scheduler", "input": {"progs": progs},
                                                 "model": "every step returns", "code": "Stuck: %s" % e})
                if n_stuck >= 2:
                    break
            if len(cases) >= 50:
                _check_cases(cases, driver, summary, settle)
                cases = []
        _check_cases(cases, driver, summary, settle)
        driver.close()
    except TieBroken as e:
        summary["error"] = "TieBroken: %s" % e
    except Exception:
        summary["error"] = traceback.format_exc()
    _report_resets(summary)
    summary["nontrivial"] = sorted(summary["nontrivial"])
    return summary


def _report_resets(summary):
    for rf in RESET_FAILURES:
        if len(summary["failures"]) < 8:
            summary["failures"].append({"what": rf["what"], "kf": None, "input": {"leftovers": rf["leftovers"]}})
    del RESET_FAILURES[:]


# ------------------------------------------------------------------ value-snapshot semantics (aliasing of messages)


def _snap(v):
    """deep, comparable copy of a header / payload value at send time"""
    return json.loads(json.dumps(v))


def value_snapshot_histories(rng=None, n_random=0):
    """Model-free: the receiver must get the VALUES a message had when it was sent, exactly once, in order.
    The sender reuses ONE StructuredMessage object across sends, mutating header / payload (also mutable
    list / dict payloads, in place) between the sends and after the last one, before the receiver reads; the
    receiver scribbles over what it received, which must affect neither later receives nor the sender's object.
    Plain `send` only accepts `str` (immutable), so there is nothing to alias there; a structured message read with
    plain `recv` and callback delivery are covered too. Returns (number of histories, failures)."""
    import copy
    fails = []
    histories = []
    # (header, payload) values of the successive sends; the same object is mutated to carry them
    histories.append({"name": "reuse-payload", "values": [("round", "1"), ("round", "2")], "mode": "structured"})
    histories.append({"name": "reuse-header-and-payload", "values": [("a", 1), ("b", 2), ("c", 3)], "mode": "structured"})
    histories.append({"name": "list-payload-mutated-in-place", "values": [("h", [1]), ("h", [1, 2]), ("h", [1, 2, 3])],
                      "mode": "structured", "inplace": True})
    histories.append({"name": "dict-payload-mutated-in-place", "values": [("h", {"k": 1}), ("h", {"k": 2}), ("h", {"k": 2, "j": 0})],
                      "mode": "structured", "inplace": True})
    histories.append({"name": "structured-read-with-plain-recv", "values": [("x", "1"), ("x", "2")], "mode": "plainrecv"})
    histories.append({"name": "callback-delivery", "values": [("x", [1]), ("y", [1, 5])], "mode": "callback", "inplace": True})
    histories.append({"name": "fresh-object-per-send (control)", "values": [("x", "1"), ("x", "2")], "mode": "structured",
                      "fresh": True})
    for _ in range(n_random):
        k = rng.randrange(2, 5)
        vals = []
        cur = [rng.randrange(9)]
        for _i in range(k):
            cur = cur + [rng.randrange(9)] if rng.random() < 0.6 else [rng.randrange(9)]
            vals.append((rng.choice(["h", "g", 7]), list(cur)))
        histories.append({"name": "random", "values": vals, "mode": rng.choice(["structured", "plainrecv", "callback"]),
                          "inplace": rng.random() < 0.5})
    for hist in histories:
        reset_and_check("before a value-snapshot history")
        vals = hist["values"]
        expected = [[_snap(h), _snap(p)] for h, p in vals]
        out = {"received": [], "errors": [], "after_empty": None, "sender_obj": None, "stored": []}
        a_done, b_done = threading.Event(), threading.Event()
        keep = []

        class Store(ThreadSocket):
            def recv_callback(self, msg):
                out["stored"].append(msg)

        def alice():
            try:
                sock = ThreadSocket("n0", "n1", timeout=10)
                keep.append(sock)
                msg = None
                for i, (h, p) in enumerate(vals):
                    if msg is None or hist.get("fresh"):
                        msg = StructuredMessage(header=copy.deepcopy(h), payload=copy.deepcopy(p))
                    else:
                        msg.header = copy.deepcopy(h)
                        if hist.get("inplace") and isinstance(msg.payload, list) and isinstance(p, list):
                            del msg.payload[:]
                            msg.payload.extend(copy.deepcopy(p))        # same list object, new contents
                        elif hist.get("inplace") and isinstance(msg.payload, dict) and isinstance(p, dict):
                            msg.payload.clear()
                            msg.payload.update(copy.deepcopy(p))
                        else:
                            msg.payload = copy.deepcopy(p)
                    sock.send_structured(msg)
                # after the last send, before the receiver reads: scribble over the sender's object
                msg.header = "SCRIBBLED-BY-SENDER"
                if isinstance(msg.payload, list):
                    msg.payload.append("SCRIBBLED-BY-SENDER")
                elif isinstance(msg.payload, dict):
                    msg.payload["SCRIBBLED-BY-SENDER"] = 1
                else:
                    msg.payload = "SCRIBBLED-BY-SENDER"
                out["sender_obj"] = msg
                out["sender_expected"] = [_snap(msg.header), _snap(msg.payload)]
            except Exception as e:  # noqa
                out["errors"].append("sender: %r" % (e,))
            finally:
                a_done.set()
                b_done.wait(10)

        def bob():
            try:
                cls = Store if hist["mode"] == "callback" else ThreadSocket
                sock = cls("n1", "n0", timeout=10, use_callbacks=hist["mode"] == "callback")
                keep.append(sock)
                if not a_done.wait(10):
                    raise RuntimeError("sender never finished")
                if hist["mode"] == "callback":
                    for raw in out["stored"]:
                        d = json.loads(raw) if isinstance(raw, str) else {"header": raw.header, "payload": raw.payload}
                        out["received"].append([_snap(d["header"]), _snap(d["payload"])])
                else:
                    for _i in vals:
                        if hist["mode"] == "plainrecv":
                            raw = sock.recv(timeout=5)
                            d = json.loads(raw)
                            out["received"].append([_snap(d["header"]), _snap(d["payload"])])
                        else:
                            got = sock.recv_structured(timeout=5)
                            out["received"].append([_snap(got.header), _snap(got.payload)])
                            # the receiver scribbles over what it got
                            got.header = "SCRIBBLED-BY-RECEIVER"
                            if isinstance(got.payload, list):
                                got.payload.append("SCRIBBLED-BY-RECEIVER")
                            elif isinstance(got.payload, dict):
                                got.payload["SCRIBBLED-BY-RECEIVER"] = 1
                            else:
                                got.payload = "SCRIBBLED-BY-RECEIVER"
                    try:
                        extra = sock.recv(block=False)
                        out["after_empty"] = "extra message %r" % (extra,)
                    except RuntimeError:
                        out["after_empty"] = "empty"
            except Exception as e:  # noqa
                out["errors"].append("receiver: %r" % (e,))
            finally:
                b_done.set()

        ts = [threading.Thread(target=alice, daemon=True), threading.Thread(target=bob, daemon=True)]
        for t in ts:
            t.start()
        for t in ts:
            t.join(30)
        desc = {"history": hist["name"], "mode": hist["mode"], "one object reused": not hist.get("fresh"),
                "in-place payload mutation": bool(hist.get("inplace")), "values at send time": expected,
                "received": out["received"], "after the last receive": out["after_empty"], "errors": out["errors"]}
        if out["errors"] or any(t.is_alive() for t in ts):
            fails.append({"what": "value-snapshot history '%s' could not complete: %s" % (hist["name"], out["errors"]),
                          "input": desc})
        elif out["received"] != expected:
            fails.append({"what": "the receiver got %s but the values at send time were %s (one StructuredMessage object "
                                  "reused / mutated by the sender, history '%s')" % (out["received"], expected, hist["name"]),
                          "input": desc})
        elif hist["mode"] != "callback" and out["after_empty"] != "empty":
            fails.append({"what": "after all messages were received the channel did not report emptiness: %s"
                                  % out["after_empty"], "input": desc})
        else:
            so = out["sender_obj"]
            if so is not None and [_snap(so.header), _snap(so.payload)] != out["sender_expected"]:
                fails.append({"what": "the receiver's modification of a received message changed the SENDER's object: %s"
                                      % [_snap(so.header), _snap(so.payload)], "input": desc})
        del keep[:]
        hub_in_use().__init__()
    reset_and_check("after the value-snapshot histories")
    return len(histories), fails


def broadcast_matrix():
    """Model-free, with a watchdog: broadcast channels with 1, 2, 3 remotes x block True / False x empty /
    non-empty. Non-empty: recv returns (sender, message); empty + block=False: RuntimeError at once; empty +
    block=True: keeps waiting and returns the message sent later. A call that must return or raise but is still
    running after the watchdog time is reported with its input. Returns (number of cases, failures)."""
    fails, n_cases = [], 0
    SH._SocketHub._CONNECT_SLEEP_TIME = 0
    SH._SocketHub._RECV_SLEEP_TIME = 0
    for n_rem in (1, 2, 3):
        for block in (False, True):
            for nonempty in (False, True):
                n_cases += 1
                reset_and_check("before a broadcast case")
                names = [node_name(i) for i in range(n_rem + 1)]
                chans, errs = {}, []

                def build(i, names=names, chans=chans, errs=errs):
                    try:
                        rem = names[1:] if i == 0 else [names[0]]
                        chans[i] = ThreadBroadcastChannel(names[i], rem, timeout=10)
                    except Exception as e:  # noqa
                        errs.append(repr(e))
                ts = [threading.Thread(target=build, args=(i,), daemon=True) for i in range(n_rem + 1)]
                for t in ts:
                    t.start()
                for t in ts:
                    t.join(15)
                desc = {"remotes of the receiving channel": n_rem, "block": block,
                        "a message is queued before the call": nonempty}
                if errs or len(chans) != n_rem + 1:
                    fails.append({"what": "broadcast channels could not be built: %s" % errs, "input": desc})
                    continue
                sender = n_rem        # the LAST remote sends (the poll has to pass the empty ones first)
                if nonempty:
                    chans[sender].send("m5")
                out = {}

                def call(out=out, chans=chans, block=block):
                    try:
                        out["ret"] = chans[0].recv(block=block)
                    except Exception as e:  # noqa
                        out["exc"] = type(e).__name__
                t = threading.Thread(target=call, daemon=True)
                t.start()
                t.join(0.3 if (block and not nonempty) else 3.0)
                if nonempty:
                    if t.is_alive():
                        fails.append({"what": "BroadcastChannel.recv(block=%s) is still running after 3 s although a "
                                              "message was queued" % block, "input": desc})
                    elif out.get("ret") != (names[sender], "m5"):
                        fails.append({"what": "BroadcastChannel.recv(block=%s) with a queued message gave %s instead of "
                                              "%s" % (block, out, (names[sender], "m5")), "input": desc})
                elif not block:
                    if t.is_alive():
                        fails.append({"what": "BroadcastChannel.recv(block=False) on an EMPTY channel with %d remote(s) "
                                              "blocks (still running after 3 s) instead of raising RuntimeError" % n_rem,
                                      "input": desc})
                        chans[sender].send("m9")     # let the stuck thread go
                        t.join(3)
                    elif out.get("exc") != "RuntimeError":
                        fails.append({"what": "BroadcastChannel.recv(block=False) on an empty channel gave %s instead of "
                                              "RuntimeError" % out, "input": desc})
                else:
                    if not t.is_alive():
                        fails.append({"what": "BroadcastChannel.recv(block=True) on an empty channel did not wait: %s"
                                              % out, "input": desc})
                    else:
                        chans[sender].send("m7")
                        t.join(3)
                        if t.is_alive() or out.get("ret") != (names[sender], "m7"):
                            fails.append({"what": "a blocking BroadcastChannel.recv did not return the message sent "
                                                  "while it was waiting: %s" % out, "input": desc})
                chans.clear()
                hub_in_use().__init__()
    reset_and_check("after the broadcast cases")
    return n_cases, fails


def api_parameter_histories(rng=None, n_random=0):
    """Model-free: every parameter of the public receive API in the vocabulary. The parameters of `recv`, `recv_silent`
    and `recv_structured` are enumerated from their signatures (new ones are picked up) and given the values None, 1, a
    small number and one larger than any message; the sender has queued a few strings before. Oracle: the
    concatenation of what the receive calls return, in order, is the concatenation of the sent messages in order (nothing
    lost, duplicated or reordered — true on the code as it is whatever `maxsize` / `timeout` are), and, when no size limit
    is given, the returned list IS the sent list. Returns (number of histories, failures)."""
    import inspect
    import itertools
    fails, n_hist = [], 0
    SH._SocketHub._CONNECT_SLEEP_TIME = 0
    SH._SocketHub._RECV_SLEEP_TIME = 0
    msg_sets = [["hello world", "second"], ["a", "bc", "def"], ["m1", "", "m2"], ["x" * 40, "y"]]
    for _ in range(n_random):
        msg_sets.append(["".join(rng.choice("abcdefgh ") for _ in range(rng.randrange(0, 12)))
                         for _ in range(rng.randrange(1, 5))])
    for method in ("recv", "recv_silent", "recv_structured"):
        sig = inspect.signature(getattr(ThreadSocket, method))
        names = [n for n in sig.parameters if n not in ("self", "block", "args", "kwargs")]
        if not names:       # (*args, **kwargs) wrapper: look through it
            inner = getattr(getattr(ThreadSocket, method), "__wrapped__", None)
            names = ["timeout", "maxsize"]
        values = {n: ([None, 5] if n == "timeout" else [None, 1, 3, 1000]) for n in names}
        combos = [dict(zip(names, v)) for v in itertools.product(*[values[n] for n in names])]
        for kw in combos:
            for msgs in (msg_sets if method != "recv_structured" else [["p1", "p2"], ["q"]]):
                n_hist += 1
                reset_and_check("before an API-parameter history")
                out = {"got": [], "errors": []}
                a_done, b_done = threading.Event(), threading.Event()
                keep = []

                def alice(msgs=msgs, method=method):
                    try:
                        sock = ThreadSocket("n0", "n1", timeout=10)
                        keep.append(sock)
                        for m in msgs:
                            if method == "recv_structured":
                                sock.send_structured(StructuredMessage(header="h", payload=m))
                            else:
                                sock.send(m)
                    except Exception as e:  # noqa
                        out["errors"].append("sender: %r" % (e,))
                    finally:
                        a_done.set()
                        b_done.wait(10)

                def bob(kw=kw, method=method):
                    try:
                        sock = ThreadSocket("n1", "n0", timeout=10)
                        keep.append(sock)
                        if not a_done.wait(10):
                            raise RuntimeError("sender never finished")
                        for _i in range(200):
                            try:
                                r = getattr(sock, method)(block=False, **kw)
                            except RuntimeError as e:
                                if "No message to receive" in str(e):
                                    break
                                raise
                            out["got"].append(r.payload if method == "recv_structured" else r)
                    except Exception as e:  # noqa
                        out["errors"].append("receiver: %r" % (e,))
                    finally:
                        b_done.set()

                ts = [threading.Thread(target=alice, daemon=True), threading.Thread(target=bob, daemon=True)]
                for t in ts:
                    t.start()
                for t in ts:
                    t.join(20)
                desc = {"call": "%s(block=False, %s)" % (method, ", ".join("%s=%r" % kv for kv in kw.items())),
                        "sent": msgs, "received": out["got"], "errors": out["errors"]}
                unlimited = all(v is None or k == "timeout" for k, v in kw.items())
                if out["errors"] or any(t.is_alive() for t in ts):
                    fails.append({"what": "%s could not complete: %s" % (desc["call"], out["errors"]), "input": desc})
                elif "".join(str(x) for x in out["got"]) != "".join(msgs):
                    fails.append({"what": "%s: the concatenation of what was received %r is not the concatenation of what "
                                          "was sent %r (something lost, duplicated or reordered)"
                                          % (desc["call"], out["got"], msgs), "input": desc})
                elif unlimited and out["got"] != msgs:
                    fails.append({"what": "%s returned %r for the sent messages %r (exactly once, in order)"
                                          % (desc["call"], out["got"], msgs), "input": desc})
                del keep[:]
                hub_in_use().__init__()
    reset_and_check("after the API-parameter histories")
    return n_hist, fails


def two_run_histories():
    """lifecycle across runs in ONE process: run 1 leaves an unreceived message and dangling connect markers (no
    disconnect); `reset_socket_hub()`; run 2 uses the same names. Returns the run-2 cases (judged by the oracle on
    run 2 alone) and direct failures."""
    global FORCE_CLEAN
    fails, cases = [], []
    run1 = [[("c", 1, 0, 0), ("s", 1, 0, 7), ("s", 1, 0, 8)], [("c", 0, 0, 0), ("r", 0, 0, 0)]]
    run1cb = [[("c", 1, 0, 0), ("s", 1, 0, 7)], [("c", 0, 0, 1)]]
    run2s = [[[("c", 1, 0, 0), ("s", 1, 0, 1)], [("c", 0, 0, 0), ("r", 0, 0, 1), ("r", 0, 0, 0)]],
             [[("c", 1, 0, 0), ("s", 1, 0, 1), ("s", 1, 0, 2)], [("c", 0, 0, 0), ("r", 0, 0, 0), ("r", 0, 0, 0),
                                                               ("r", 0, 0, 0)]]]
    FORCE_CLEAN = False     # here the reset under test must do the job alone
    alive = []              # the sockets of the first runs stay referenced: no garbage-collection driven disconnect
    try:
        for r1 in (run1, run1cb):
            for r2 in run2s:
                run_case(r1, preemptive_policy({}, []), keep_sockets=alive)   # run 1 (its own oracle is not the point)
                cases.append(run_case(r2, preemptive_policy({}, [])))         # run 2, same names
            # run 2 in which the peer never starts: connect must keep waiting
            run_case(r1, preemptive_policy({}, []), keep_sockets=alive)
            lonely = [[], [("c", 0, 0, 0)]]
            c = run_case(lonely, lambda sc, i, last: 1 if i < 30 and sc.enabled(1) else None)
            if ["connected", [1, 0, 0]] in c["res"][1]:
                fails.append({"what": "two runs in one process: after reset_socket_hub() a connect returned although "
                                      "its peer never started in this run (dangling connect marker of the previous "
                                      "run)", "key": [1, 0, 0], "progs": lonely, "previous_run": r1})
    finally:
        FORCE_CLEAN = True
        hub_in_use().__init__()
        del alive[:]
        hub_in_use().__init__()
    return cases, fails


def worker_explore(args):
    pairs, max_preempt, deadline = args
    import time
    import traceback
    summary = _new_summary()
    try:
        ensure_located()
        driver = common.Driver()
        for (pa, pb) in pairs:
            if time.time() > deadline:
                break
            progs = pb if pa == "progs" else build_pair(pa, pb)
            try:
                cases, complete = explore(progs, (), max_preempt=max_preempt, deadline=deadline)
            except Stuck as e:
                summary["disagreements"].append({"stream": "hub.scheduler", "input": {"progs": progs},
                                                 "model": "every step returns", "code": "Stuck: %s" % e})
                break
            _check_cases(cases, driver, summary, 0)
            summary["pairs_complete" if complete else "pairs_partial"] += 1
        driver.close()
        _report_resets(summary)
    except TieBroken as e:
        summary["error"] = "TieBroken: %s" % e
    except Exception:
        summary["error"] = traceback.format_exc()
    summary["nontrivial"] = sorted(summary["nontrivial"])
    return summary


def gen_programs(rng, n_nodes=None, max_ops=4):
    n = n_nodes or rng.choice([2, 2, 3])
    socks = []
    for a in range(n):
        for b in range(a + 1, n):
            if n == 2 or rng.random() < 0.8:
                for sid in range(rng.choice([1, 1, 2])):
                    socks.append((a, b, sid))
    if not socks:
        socks = [(0, 1, 0)]
    structured = [s for s in socks if rng.random() < 0.3]
    cb = {}
    for (a, b, sid) in socks:
        cb[(a, b, sid)] = rng.random() < 0.3
        cb[(b, a, sid)] = rng.random() < 0.3
    progs = [[] for _ in range(n)]
    for (a, b, sid) in socks:   # global connect order: no circular wait
        progs[a].append(("c", b, sid, int(cb[(a, b, sid)])))
        progs[b].append(("c", a, sid, int(cb[(b, a, sid)])))
    mid = 0
    plan = [[] for _ in range(n)]
    n_send = {}
    for t in range(n):
        mine = [(a, b, sid) for (a, b, sid) in socks if t in (a, b)]
        if not mine:
            continue
        for _ in range(rng.randrange(0, max_ops + 1)):
            a, b, sid = rng.choice(mine)
            other = b if t == a else a
            if rng.random() < 0.55:
                mid += 1
                st = ((min(t, other), max(t, other), sid) in structured) != (rng.random() < 0.06)
                plan[t].append(("s", other, sid, mid if st else (0 if rng.random() < 0.25 else mid), int(st)))
                n_send[(other, t, sid)] = n_send.get((other, t, sid), 0) + 1
            else:
                plan[t].append(("r", other, sid, None))
    for t in range(n):
        n_recv = {}
        for op in plan[t]:
            if op[0] == "r":
                k = (t, op[1], op[2])
                n_recv[k] = n_recv.get(k, 0) + 1
                block = (not cb.get(k)) and n_recv[k] <= n_send.get(k, 0) and rng.random() < 0.6
                # recv / recv_structured: the channel's kind, now and then the other call (a structured message read
                # with recv comes back as its JSON string; a plain string read with recv_structured raises)
                st = ((min(t, op[1]), max(t, op[1]), op[2]) in structured) != (rng.random() < 0.06)
                progs[t].append(("r", op[1], op[2], int(block), int(st)))
            else:
                progs[t].append(op)
        mine = [(a, b, sid) for (a, b, sid) in socks if t in (a, b)]
        for (a, b, sid) in mine:
            if rng.random() < 0.5:
                other = b if t == a else a
                first = len([o for o in progs[t] if o[0] == "c"])
                pos = rng.randrange(first, len(progs[t]) + 1)
                # the public setter `use_callbacks` may be flipped on the live socket before it is closed
                progs[t].insert(pos, ("d", other, sid, int(rng.random() < 0.3)))
                if rng.random() < 0.35:     # disconnect-reconnect history: the same key, a new socket object,
                    pos2 = rng.randrange(pos + 1, len(progs[t]) + 1)   # callback or plain whatever it was before
                    progs[t].insert(pos2, ("c", other, sid, int(rng.random() < 0.5)))
                    for _ in range(rng.randrange(0, 3)):               # and receives in the new incarnation
                        progs[t].insert(rng.randrange(pos2 + 1, len(progs[t]) + 1), ("r", other, sid, 0))
                elif rng.random() < 0.15:   # ThreadSocket.wait(): spin until the connection is gone
                    progs[other].append(("w", t, sid))
    for t in range(n):          # attribute routes (last pass): assigned at an arbitrary point after the first connect
        for (a, b, sid) in [x for x in socks if t in (x[0], x[1])]:
            other = b if t == a else a
            for name in settable_properties():
                if rng.random() < 0.3:
                    idx = [i for i, o in enumerate(progs[t]) if o[0] == "c" and (o[1], o[2]) == (other, sid)]
                    if idx:
                        pos = rng.randrange(idx[0] + 1, len(progs[t]) + 1)
                        progs[t].insert(pos, ("u", other, sid, name, rng.random() < 0.5))
    return progs, []


def small_programs():
    """all endpoint programs of the bounded-exhaustive tier: connect (plain / callback), <= 2 operations from
    {send, blocking recv, non-blocking recv}, optional disconnect at the end"""
    ops = ["s", "rb", "rn"]
    seqs = [[]] + [[a] for a in ops] + [[a, b] for a in ops for b in ops]
    out = []
    for cb in (0, 1):
        for seq in seqs:
            for disc in (0, 1):
                out.append((cb, tuple(seq), disc))
    return out


def build_pair(pa, pb):
    progs = []
    mid = 0
    for t, (cb, seq, disc) in enumerate((pa, pb)):
        other = 1 - t
        p = [("c", other, 0, cb)]
        for o in seq:
            if o == "s":
                mid += 1
                first0 = t == 0 and not any(x[0] == "s" for x in p)
                p.append(("s", other, 0, 0 if first0 else mid))
            else:
                p.append(("r", other, 0, 1 if o == "rb" else 0))
        if disc:
            p.append(("d", other, 0))
        progs.append(p)
    return progs


# the schedule shape of F20 (DESIGN §6): B (callback socket) connects up to the point where its key is
# visible, A connects and sends m1, B finishes registering, A sends m2.
def history_pairs():
    """endpoint programs whose key changes its delivery mode across a disconnect/reconnect (incl. flipping
    `use_callbacks` on the live socket before closing it); thread 0 keeps sending"""
    a3 = [("c", 1, 0, 0), ("s", 1, 0, 1), ("s", 1, 0, 2), ("s", 1, 0, 3)]
    a2 = [("c", 1, 0, 0), ("s", 1, 0, 1), ("s", 1, 0, 2)]
    out = []
    for tog in (1, 0):
        out.append([a3, [("c", 0, 0, 1), ("d", 0, 0, tog), ("c", 0, 0, 0), ("r", 0, 0, 0), ("r", 0, 0, 0)]])
        out.append([a3, [("c", 0, 0, 0), ("d", 0, 0, tog), ("c", 0, 0, 1), ("r", 0, 0, 0)]])
        out.append([a2, [("c", 0, 0, 1), ("d", 0, 0, tog), ("c", 0, 0, 1)]])
        out.append([a2, [("c", 0, 0, 0), ("r", 0, 0, 0), ("d", 0, 0, tog), ("c", 0, 0, 0), ("r", 0, 0, 0)]])
    return out


def socket_layer_scenarios():
    """socket-level programs: mixed plain / structured traffic (matching and mismatching receive calls, wait),
    and broadcast channels (3 endpoints: send to all, blocking recv polling the remotes)"""
    mixed = [[("c", 1, 0, 0), ("s", 1, 0, 7, 1), ("s", 1, 0, 5, 0), ("s", 1, 0, 1, 1), ("s", 1, 0, 0, 0), ("w", 1, 0)],
             [("c", 0, 0, 0), ("r", 0, 0, 1, 1), ("r", 0, 0, 1, 0), ("r", 0, 0, 1, 0), ("r", 0, 0, 1, 1), ("r", 0, 0, 0, 1),
              ("d", 0, 0, 0)]]
    bcast3 = [[("bc", -1, 0, [1, 2]), ("bs", -1, 0, 10, [1, 2]), ("bs", -1, 0, 11, [1, 2]), ("br", -1, 0, 1, [1, 2])],
              [("bc", -1, 0, [0, 2]), ("br", -1, 0, 1, [0, 2]), ("br", -1, 0, 1, [0, 2])],
              [("bc", -1, 0, [0, 1]), ("br", -1, 0, 1, [0, 1]), ("bs", -1, 0, 20, [0, 1]), ("br", -1, 0, 1, [0, 1])]]
    # a broadcast that hits a remote which has already gone: ConnectionError aborts the remaining remotes
    bgone = [[("bc", -1, 0, [1, 2]), ("bs", -1, 0, 10, [1, 2]), ("bs", -1, 0, 11, [1, 2])],
             [("c", 0, 0, 0), ("d", 0, 0, 0)],
             [("c", 0, 0, 1)]]
    bcast2 = [[("bc", -1, 0, [1]), ("bs", -1, 0, 3, [1]), ("br", -1, 0, 1, [1])],
              [("bc", -1, 0, [0]), ("brn", -1, 0, [0]), ("br", -1, 0, 1, [0]), ("bs", -1, 0, 4, [0])]]
    # non-blocking broadcast receives: one round over the remotes, the second remote may be the one with a message
    bnb3 = [[("bc", -1, 0, [1, 2]), ("brn", -1, 0, [1, 2]), ("brn", -1, 0, [1, 2]), ("brn", -1, 0, [1, 2])],
            [("bc", -1, 0, [0, 2]), ("bs", -1, 0, 5, [0, 2])],
            [("bc", -1, 0, [0, 1]), ("bs", -1, 0, 6, [0, 1]), ("brn", -1, 0, [0, 1])]]
    return {"mixed": mixed, "bcast3": bcast3, "bgone": bgone, "bcast2": bcast2, "bnb3": bnb3}


def f48_case():
    """F48 (fixed): the non-blocking broadcast receive used to skip its polling loop (`while block:`)"""
    return [[("bc", -1, 0, [1]), ("bs", -1, 0, 3, [1]), ("bs", -1, 0, 4, [1])],
            [("bc", -1, 0, [0]), ("r", 0, 0, 1, 0), ("brn", -1, 0, [0])]]


def f20_case():
    progs = [[("c", 1, 0, 0), ("s", 1, 0, 1), ("s", 1, 0, 2)], [("c", 0, 0, 1)]]
    return progs
