"""C06 — real-code side: the same host program run twice on the in-process SDK -> bytes ->
Executor pipeline,
  flow "P": rotation angles are `Template`s; a segment ends with
            `compile(); instantiate(values); commit_subroutine()`
  flow "D": the program written with the concrete values; the segment ends with `flush()`.
Everything observable is recorded per step / per segment so that the flows can be compared
(bytes sent, controller trace, controller arrays, shared memory, builder bookkeeping) and the
bookkeeping can be compared with the Lean model (`tpl.run`).

program = {"cfg": {"nv","transp","maxq"}, "segs": [{"body": [step...], "pre": {name: value} | None}]}
step    = new | gate h g | rot h axis n d | gate2 h h2 | meas h mode inplace | array len
          (n = int or {"t": name}; mode = "array" | "reg")
The connection is closed at the end (closing flush).
"""
from harness.pipeline import PipelineConnection, TraceExecutor, reset_globals

from netqasm.lang.encoding import RegisterName  # noqa: E402
from netqasm.lang.ir import ICmd  # noqa: E402
from netqasm.lang.operand import Register, Template  # noqa: E402
from netqasm.sdk.build_types import NVHardwareConfig  # noqa: E402
from netqasm.sdk.qubit import Qubit  # noqa: E402
from netqasm.sdk.transpile import NVSubroutineTranspiler  # noqa: E402

GATES1 = ["H", "X", "Z", "T", "S", "K", "Y"]


def render_cmds(cmds):
    out = []
    for c in cmds:
        if isinstance(c, ICmd):
            ops = []
            for o in c.operands:
                if isinstance(o, Template):
                    ops.append({"t": o.name})
                elif isinstance(o, int) and not isinstance(o, bool) and type(o) is int:
                    ops.append({"i": o})
                else:
                    ops.append({"s": str(o)})
            out.append({"n": c.instruction.name, "o": ops})
        else:
            out.append({"n": "LABEL", "o": [{"s": str(c)}]})
    return out


def subst_rendered(cmds, vals):
    return [{"n": c["n"], "o": [({"i": vals[o["t"]]} if "t" in o else o) for o in c["o"]]} for c in cmds]


def bookkeeping(conn):
    mm = conn.builder._mem_mgr
    regs = []
    for r in mm._registers_to_return:
        regs.append(r.index if r.name == RegisterName.M else 100 + r.index)
    return {"pending": len(conn.builder._pending_commands),
            "arrays": [[a.address, len(a)] for a in mm._arrays_to_return],
            "regs": regs,
            "used": list(mm._used_array_addresses),
            "meas": [bool(mm._used_meas_registers[Register(RegisterName.M, i)]) for i in range(16)]}


def controller_state(conn, ex):
    try:
        arrs = {str(k): list(v) for k, v in ex._app_arrays[conn.app_id]._arrays.items()}
    except Exception:  # noqa: BLE001
        arrs = None
    try:
        shm = sorted((str(k), v) for k, v in conn.shared_memory._get_active_values())
        shm_arrays = {str(k): list(v) for k, v in conn.shared_memory._arrays._arrays.items()}
    except Exception as e:  # noqa: BLE001
        shm, shm_arrays = "error:" + type(e).__name__, None
    return {"arrays": arrs, "shm": shm, "shm_arrays": shm_arrays,
            "unit": ex.allocated_virtual(conn.app_id) if conn.app_id in ex._qubit_unit_modules else None}


def run_flow(prog, flow, outcomes):
    """Returns {"steps": [[per step {"bk", "delta", "inplace_rewrite"}]...], "segs": [...], "close": {...},
    "futures": [...], "error": str|None}"""
    cfg = prog["cfg"]
    reset_globals()
    ex = TraceExecutor(name="alice", outcomes=list(outcomes))
    kw = {}
    if cfg["nv"]:
        kw["hardware_config"] = NVHardwareConfig(cfg["maxq"])
    if cfg["transp"]:
        kw["compiler"] = NVSubroutineTranspiler
    conn = PipelineConnection("alice", executor=ex, max_qubits=cfg["maxq"], **kw)
    captured = []
    orig = conn.builder.subrt_compile_subroutine

    def wrapped(ps):
        captured.append(render_cmds(ps.commands))
        return orig(ps)

    conn.builder.subrt_compile_subroutine = wrapped
    handles = []
    futures = []
    rec = {"steps": [], "segs": [], "close": None, "futures": None, "error": None}

    def seg_record(n_msgs_before, n_cap_before, n_trace_before):
        return {"proto": captured[n_cap_before:] and captured[-1] or None,
                "bytes": [m.hex() for m in conn.messages[n_msgs_before:]],
                "trace": [list(t) for t in ex.trace[n_trace_before:]],
                "state": controller_state(conn, ex),
                "bk": bookkeeping(conn)}

    try:
        for seg in prog["segs"]:
            vals = seg["pre"]
            steps = []
            for st in seg["body"]:
                k = st["k"]
                before = render_cmds(conn.builder._pending_commands)
                if k == "new":
                    handles.append(Qubit(conn))
                elif k == "gate":
                    getattr(handles[st["h"]], GATES1[st["g"] % len(GATES1)])()
                elif k == "rot":
                    n = st["n"]
                    if isinstance(n, dict):
                        n = Template(n["t"]) if flow == "P" else vals[n["t"]]
                    getattr(handles[st["h"]], "rot_" + st["axis"])(n=n, d=st["d"])
                elif k == "gate2":
                    handles[st["h"]].cnot(handles[st["h2"]])
                elif k == "meas":
                    futures.append(handles[st["h"]].measure(inplace=st["inplace"],
                                                            store_array=(st["mode"] == "array")))
                elif k == "array":
                    conn.new_array(st["len"])
                else:
                    raise KeyError(k)
                after = render_cmds(conn.builder._pending_commands)
                rewritten = after[:len(before)] != before
                steps.append({"bk": bookkeeping(conn), "delta": after[len(before):], "rewrite": rewritten,
                              "pending": after})
            rec["steps"].append(steps)
            nm, nc, nt = len(conn.messages), len(captured), len(ex.trace)
            if vals is not None and flow == "P":
                sub = conn.compile()
                if sub is not None:
                    sub.instantiate(conn.app_id, dict(vals))
                    conn.commit_subroutine(sub)
            else:
                conn.flush()
            rec["segs"].append(seg_record(nm, nc, nt))
        nm, nc, nt = len(conn.messages), len(captured), len(ex.trace)
        conn.close()
        rec["close"] = seg_record(nm, nc, nt)
        vals_out = []
        for f in futures:
            try:
                vals_out.append(f.value)
            except Exception as e:  # noqa: BLE001
                vals_out.append("error:" + type(e).__name__)
        rec["futures"] = vals_out
    except Exception as e:  # noqa: BLE001
        rec["error"] = type(e).__name__ + ": " + str(e)[:120]
    return rec


def model_request(prog, recP):
    """`tpl.run` request built from the program and the pending-command deltas of flow P"""
    segs = []
    for seg, steps in zip(prog["segs"], recP["steps"]):
        body = []
        for st, r in zip(seg["body"], steps):
            if st["k"] == "array":
                body.append({"k": "array", "len": st["len"]})
            elif st["k"] == "meas":
                body.append({"k": "meas", "m": st["mode"], "cs": r["delta"]})
            else:
                body.append({"k": "cmds", "cs": r["delta"]})
        segs.append({"body": body, "pre": None if seg["pre"] is None else
                     [[k, v] for k, v in sorted(seg["pre"].items())]})
    segs.append({"body": [], "pre": None})  # the closing flush
    return {"op": "tpl.run", "segs": segs}


def random_program(rng, thorough=False):
    cfg = {"nv": rng.random() < 0.5, "transp": False, "maxq": rng.randint(2, 5)}
    if cfg["nv"] and rng.random() < 0.5:
        cfg["transp"] = True
    limit = cfg["maxq"] - (1 if cfg["nv"] else 0)
    alive = []  # per handle
    segs = []
    tcount = 0
    for _ in range(rng.randint(1, 4)):
        pre = rng.random() < 0.65
        vals = {} if pre else None
        body = []
        regs_used = 0
        for _ in range(rng.randint(0, 7)):
            lv = [i for i, a in enumerate(alive) if a]
            ch = ["array"]
            if len(lv) < limit:
                ch += ["new"] * 3
            if lv:
                ch += ["gate", "rot", "rot", "rot", "meas", "meas"]
            if len(lv) >= 2 and not cfg["transp"]:
                ch += ["gate2"]
            k = rng.choice(ch)
            if k == "new":
                body.append({"k": "new"})
                alive.append(True)
            elif k == "gate":
                body.append({"k": "gate", "h": rng.choice(lv), "g": rng.randrange(7)})
            elif k == "rot":
                if pre and rng.random() < 0.75:
                    if vals and rng.random() < 0.2:
                        name = rng.choice(sorted(vals))
                    else:
                        name = "t%d" % tcount
                        tcount += 1
                        vals[name] = rng.choice([0, 1, 255, 16, rng.randrange(256)])
                    n = {"t": name}
                else:
                    n = rng.randrange(256)
                body.append({"k": "rot", "h": rng.choice(lv), "axis": rng.choice("XYZ"), "n": n,
                             "d": rng.randrange(0, 8)})
            elif k == "gate2":
                a, b = rng.sample(lv, 2)
                body.append({"k": "gate2", "h": a, "h2": b})
            elif k == "meas":
                h = rng.choice(lv)
                mode = rng.choice(["array", "array", "reg"])
                if mode == "reg":
                    regs_used += 1
                    if regs_used > 14:
                        mode = "array"
                ip = rng.random() < 0.25
                body.append({"k": "meas", "h": h, "mode": mode, "inplace": ip})
                if not ip:
                    alive[h] = False
            elif k == "array":
                body.append({"k": "array", "len": rng.randint(1, 3)})
        segs.append({"body": body, "pre": vals})
    return {"cfg": cfg, "segs": segs}
