"""C06 — real-code side: the same host program run twice on the in-process SDK -> bytes ->
Executor pipeline,
  flow "P": rotation angles are `Template`s; a segment ends with
            `compile(); instantiate(values); commit_subroutine()`
  flow "D": the program written with the concrete values; the segment ends with `flush()`.
Everything observable is recorded per step / per segment so that the flows can be compared
(bytes sent, controller trace, controller arrays, shared memory, builder bookkeeping) and the
bookkeeping can be compared with the Lean model (`tpl.run`).

program = {"cfg": {"nv","transp","maxq"}, "events": [event...]}
event   = new | gate h g | rot h axis n d | gate2 h h2 | meas h mode inplace | array len
          (n = int or {"t": name}; mode = "array" | "reg")
        | flush | compile vals [more] [partial] [copy] | commit
A `compile` may be RE-USED: `more` = further value dicts; the compiled template is then
instantiated once per dict on `copy.copy`/`copy.deepcopy` of it (`copy`) and each instance takes
one `commit` (flow D: the block is built again with those values and flushed).  `partial` = an
incomplete dict tried first on instance `partial_at` (KeyError expected, then the full dict).
`compile` pre-compiles the pending operations (flow D: flushes them); `commit` instantiates the
OLDEST compiled-but-uncommitted subroutine with its values and commits it (flow D: nothing).
Operations may be built between a compile and its commit and several compiled subroutines may
be outstanding; an ordinary flush only occurs while nothing is outstanding (otherwise the
controller would legitimately see the subroutines in a different order).
The connection is closed at the end (closing flush).  `segs_to_events` converts the older
segment form [{"body": [...], "pre": vals | None}] (compile immediately followed by commit).
"""
import copy as _copy

from harness import codec as _codec
from harness.pipeline import PipelineConnection, TraceExecutor, reset_globals

from netqasm.lang.encoding import RegisterName  # noqa: E402
from netqasm.lang.ir import ICmd  # noqa: E402
from netqasm.lang.operand import Register, Template  # noqa: E402
from netqasm.sdk.build_types import NVHardwareConfig  # noqa: E402
from netqasm.sdk.qubit import Qubit  # noqa: E402
from netqasm.sdk.transpile import NVSubroutineTranspiler  # noqa: E402

GATES1 = ["H", "X", "Z", "T", "S", "K", "Y"]


def render_cmds(cmds):
    out = []
    for c in cmds:
        if isinstance(c, ICmd):
            ops = []
            for o in c.operands:
                if isinstance(o, Template):
                    ops.append({"t": o.name})
                elif isinstance(o, int) and not isinstance(o, bool) and type(o) is int:
                    ops.append({"i": o})
                else:
                    ops.append({"s": str(o)})
            out.append({"n": c.instruction.name, "o": ops})
        else:
            out.append({"n": "LABEL", "o": [{"s": str(c)}]})
    return out


def subst_rendered(cmds, vals):
    return [{"n": c["n"], "o": [({"i": vals[o["t"]]} if "t" in o else o) for o in c["o"]]} for c in cmds]


def bookkeeping(conn):
    mm = conn.builder._mem_mgr
    regs = []
    for r in mm._registers_to_return:
        regs.append(r.index if r.name == RegisterName.M else 100 + r.index)
    return {"pending": len(conn.builder._pending_commands),
            "arrays": [[a.address, len(a)] for a in mm._arrays_to_return],
            "regs": regs,
            "used": list(mm._used_array_addresses),
            "meas": [bool(mm._used_meas_registers[Register(RegisterName.M, i)]) for i in range(16)]}


def controller_state(conn, ex):
    try:
        arrs = {str(k): list(v) for k, v in ex._app_arrays[conn.app_id]._arrays.items()}
    except Exception:  # noqa: BLE001
        arrs = None
    try:
        shm = sorted((str(k), v) for k, v in conn.shared_memory._get_active_values())
        shm_arrays = {str(k): list(v) for k, v in conn.shared_memory._arrays._arrays.items()}
    except Exception as e:  # noqa: BLE001
        shm, shm_arrays = "error:" + type(e).__name__, None
    return {"arrays": arrs, "shm": shm, "shm_arrays": shm_arrays,
            "unit": ex.allocated_virtual(conn.app_id) if conn.app_id in ex._qubit_unit_modules else None}


BUILD_KINDS = ("new", "gate", "rot", "gate2", "meas", "array", "loop", "if", "newreg", "radd", "fadd")

# Template names are arbitrary strings.  Adversarial vocabulary: the branch labels the builder
# generates (with the numbered variants of the label manager), register-, address- and
# macro-like names, mnemonics, digits, blanks.
NAMES = ["LOOP", "LOOP_EXIT", "LOOP1", "LOOP_EXIT1", "LOOP2", "LOOP_EXIT2", "IF_EXIT", "IF_EXIT1",
         "IF_EXIT2", "WHILE", "WHILE_EXIT", "WHILE1", "R0", "R1", "R15", "Q0", "M0", "C3", "@0", "@1[0]",
         "$x", "$1", "rot_x", "set", "jmp", "ret_arr", "0", "7", "a", "b0", "a b", " ", "Template", "name"]


def pick_name(rng, tcount, taken):
    """a fresh template name: mostly adversarial, sometimes a plain t<k>"""
    if rng.random() < 0.7:
        cand = [n for n in NAMES if n not in taken]
        if cand:
            return rng.choice(cand)
    return "t%d" % tcount


def segs_to_events(segs):
    evs = []
    for seg in segs:
        evs.extend(dict(st) for st in seg["body"])
        if seg["pre"] is None:
            evs.append({"k": "flush"})
        else:
            evs.append({"k": "compile", "vals": dict(seg["pre"])})
            evs.append({"k": "commit"})
    return evs


def next_vals(events, i):
    """template values that apply to the operation built at position i: those of the next
    compile, None if the next terminator is a flush (or there is none)"""
    for e in events[i:]:
        if e["k"] == "compile":
            return e["vals"]
        if e["k"] == "flush":
            return None
    return None


def handle_state(handles):
    out = []
    for q in handles:
        try:
            out.append([int(q.qubit_id), bool(q.active)])
        except Exception as e:  # noqa: BLE001
            out.append("error:" + type(e).__name__)
    return out


def tinstr_to_json(i):
    """instruction (possibly with Template operands) in the driver's JSON"""
    ops = []
    for o in i.operands:
        ops.append({"t": o.name} if isinstance(o, Template) else _codec.operand_to_json(o))
    return {"c": _codec.T.cls_name(type(i)), "o": ops}


def inst_request(trec, inplace=False):
    return {"op": "tpl.inst", "t": trec["t"], "sigmas": [[[k, v] for k, v in c] for c in trec["calls"]],
            "inplace": inplace}


def run_flow(prog, flow, outcomes):
    """Returns {"events": [per event record], "protos": [...], "close": {...}, "futures": [...],
    "msgs": [hex...], "error": str|None}.  Per event: bk (bookkeeping), handles, delta/rewrite
    (pending commands added / modified in place), nmsgs, outstanding, ntrace, state."""
    cfg = prog["cfg"]
    events = prog["events"]
    reset_globals()
    ex = TraceExecutor(name="alice", outcomes=list(outcomes))
    kw = {}
    if cfg["nv"]:
        kw["hardware_config"] = NVHardwareConfig(cfg["maxq"])
    if cfg["transp"]:
        kw["compiler"] = NVSubroutineTranspiler
    conn = PipelineConnection("alice", executor=ex, max_qubits=cfg["maxq"], **kw)
    n_init = len(conn.messages)
    captured = []
    cur_vals = [None]
    orig = conn.builder.subrt_compile_subroutine

    def wrapped(ps):
        r = render_cmds(ps.commands)
        captured.append(r if cur_vals[0] is None else subst_rendered(r, cur_vals[0]))
        return orig(ps)

    conn.builder.subrt_compile_subroutine = wrapped
    handles = []
    futures = []
    regs = []  # RegFuture handles of new_register
    outstanding = []
    block = []  # build events since the last terminator
    rec = {"events": [], "protos": captured, "close": None, "futures": None, "msgs": None, "error": None,
           "templates": []}

    def do_build(st, vals):
        k = st["k"]
        if k == "new":
            handles.append(Qubit(conn))
        elif k == "gate":
            getattr(handles[st["h"]], GATES1[st["g"] % len(GATES1)])()
        elif k == "rot":
            n = st["n"]
            if isinstance(n, dict):
                n = Template(n["t"]) if flow == "P" else vals[n["t"]]
            getattr(handles[st["h"]], "rot_" + st["axis"])(n=n, d=st["d"])
        elif k == "gate2":
            handles[st["h"]].cnot(handles[st["h2"]])
        elif k == "meas":
            futures.append(handles[st["h"]].measure(inplace=st["inplace"],
                                                    store_array=(st["mode"] == "array")))
        elif k == "array":
            conn.new_array(st["len"])
        elif k == "loop":
            # with conn.loop(count): <gates / rotations>  (labels LOOP, LOOP_EXIT, LOOP1, …)
            with conn.loop(st["count"]):
                for b in st["steps"]:
                    do_build(b, vals)
        elif k == "newreg":
            # a register handle that stays live across blocks
            regs.append(conn.builder.new_register(init_value=st["init"]))
        elif k == "radd":
            regs[st["r"]].add(st["v"])
        elif k == "fadd":
            # an array entry written again by a later block
            futures[st["f"]].add(st["v"])
        elif k == "if":
            # with <earlier outcome>.if_eq(v): <gates / rotations>  (label IF_EXIT, IF_EXIT1, …)
            with futures[st["f"]].if_eq(st["v"]):
                for b in st["steps"]:
                    do_build(b, vals)
    try:
        for i, st in enumerate(events):
            k = st["k"]
            before = render_cmds(conn.builder._pending_commands)
            note = None
            read_val = None
            if k in BUILD_KINDS:
                block.append(st)
                do_build(st, next_vals(events, i))
            elif k == "read":
                # what the host sees through a handle (obtained earlier, possibly read before)
                h = (futures if st["t"] == "f" else regs)[st["i"]]
                try:
                    read_val = h.value
                except Exception as e:  # noqa: BLE001
                    read_val = "error:" + type(e).__name__
            elif k == "flush":
                conn.flush()
                block = []
            elif k == "compile":
                insts = [st["vals"]] + list(st.get("more", []))
                if flow == "P":
                    cur_vals[0] = st["vals"]
                    try:
                        sub = conn.compile()
                    finally:
                        cur_vals[0] = None
                    if sub is not None:
                        trec = {"t": [tinstr_to_json(x) for x in sub.instructions], "calls": [], "results": [],
                                "after": None, "sub": sub}
                        rec["templates"].append(trec)
                        for j, v in enumerate(insts):
                            outstanding.append({"sub": sub, "vals": v, "mode": st.get("copy", "self"),
                                                "partial": st.get("partial") if j == st.get("partial_at", 0) else None,
                                                "trec": trec})
                else:
                    conn.flush()
                    for j, v in enumerate(insts):
                        outstanding.append({"block": list(block) if j > 0 else None, "vals": v})
                block = []
            elif k == "commit":
                if not outstanding:
                    note = "nothing to commit"
                elif flow == "P":
                    it = outstanding.pop(0)
                    tmpl, trec = it["sub"], it["trec"]
                    inst = tmpl if it["mode"] == "self" else (
                        _copy.copy(tmpl) if it["mode"] == "copy" else _copy.deepcopy(tmpl))
                    if it["partial"] is not None:
                        trec["calls"].append(sorted(it["partial"].items()))
                        try:
                            inst.instantiate(conn.app_id, dict(it["partial"]))
                            note = "instantiate with a missing argument did not raise"
                            trec["results"].append([tinstr_to_json(x) for x in inst.instructions])
                        except KeyError:
                            trec["results"].append(None)
                    trec["calls"].append(sorted(it["vals"].items()))
                    inst.instantiate(conn.app_id, dict(it["vals"]))
                    trec["results"].append([tinstr_to_json(x) for x in inst.instructions])
                    if it["mode"] != "self":
                        trec["after"] = [tinstr_to_json(x) for x in tmpl.instructions]
                    conn.commit_subroutine(inst)
                else:
                    it = outstanding.pop(0)
                    if it["block"] is not None:
                        # the same operations written again with this round's values, flushed
                        for b in it["block"]:
                            do_build(b, it["vals"])
                        conn.flush()
            else:
                raise KeyError(k)
            r = {"bk": bookkeeping(conn), "handles": handle_state(handles), "nmsgs": len(conn.messages) - n_init,
                 "outstanding": len(outstanding), "ntrace": len(ex.trace), "state": controller_state(conn, ex),
                 "note": note, "read": read_val}
            if k == "newreg":
                r["reg_index"] = regs[-1].reg.index
            if k in BUILD_KINDS:
                after = render_cmds(conn.builder._pending_commands)
                r["rewrite"] = after[:len(before)] != before
                r["delta"] = after[len(before):]
            rec["events"].append(r)
        conn.close()
        rec["close"] = {"bk": bookkeeping(conn), "state": controller_state(conn, ex), "handles": handle_state(handles)}
        rec["msgs"] = [m.hex() for m in conn.messages[n_init:]]
        rec["trace"] = [list(t) for t in ex.trace]
        vals_out = []
        for f in futures:
            try:
                vals_out.append(f.value)
            except Exception as e:  # noqa: BLE001
                vals_out.append("error:" + type(e).__name__)
        for f in regs:
            try:
                vals_out.append(f.value)
            except Exception as e:  # noqa: BLE001
                vals_out.append("error:" + type(e).__name__)
        rec["futures"] = vals_out
    except Exception as e:  # noqa: BLE001
        rec["error"] = type(e).__name__ + ": " + str(e)[:120]
        rec["msgs"] = [m.hex() for m in conn.messages[n_init:]]
        rec["trace"] = [list(t) for t in ex.trace]
    return rec


def model_request(prog, recP):
    """`tpl.hist` request built from the program and the pending-command deltas of flow P.
    Returns (request, index map: program event -> model step or None).  The bookkeeping model has
    one queue entry per compile; the further commits of a re-used template are no model events."""
    evs = []
    idx = []
    extra = []  # per outstanding template: number of further instances
    for st, r in zip(prog["events"], recP["events"]):
        k = st["k"]
        if k == "read":
            idx.append(None)
            continue
        if k == "commit" and extra:
            if extra[0] > 0:
                extra[0] -= 1
                idx.append(None)
                continue
            extra.pop(0)
        idx.append(len(evs))
        if k == "array":
            evs.append({"k": "build", "op": {"k": "array", "len": st["len"]}})
        elif k == "meas":
            evs.append({"k": "build", "op": {"k": "meas", "m": st["mode"], "cs": r["delta"]}})
        elif k == "newreg":
            evs.append({"k": "build", "op": {"k": "newreg", "idx": r["reg_index"], "cs": r["delta"]}})
        elif k in BUILD_KINDS:
            evs.append({"k": "build", "op": {"k": "cmds", "cs": r["delta"]}})
        elif k == "compile":
            evs.append({"k": "compile", "pre": [[a, b] for a, b in sorted(st["vals"].items())]})
            extra.append(len(st.get("more", [])))
        else:
            evs.append({"k": k})
    evs.append({"k": "flush"})  # the closing flush
    return {"op": "tpl.hist", "events": evs}, idx


def random_program(rng, thorough=False):
    cfg = {"nv": rng.random() < 0.5, "transp": False, "maxq": rng.randint(2, 5)}
    if cfg["nv"] and rng.random() < 0.5:
        cfg["transp"] = True
    limit = cfg["maxq"] - (1 if cfg["nv"] else 0)
    alive = []  # per handle
    events = []
    tcount = 0
    arr_futs = []  # indices (among all measurement futures) of those stored in arrays
    nregs = 0  # new_register handles (live across blocks)
    was_read = []  # handles the host has already read once (their value is cached)

    def reads():
        """the host reads handles at a point where nothing is outstanding: handles read before
        (re-reads) and fresh ones"""
        if rng.random() < 0.6:
            return
        pool = [("f", i) for i in arr_futs] + [("r", i) for i in range(nregs)]
        for _ in range(rng.randint(1, 3)):
            if not pool:
                return
            t, i = rng.choice(was_read) if (was_read and rng.random() < 0.6) else rng.choice(pool)
            events.append({"k": "read", "t": t, "i": i})
            if (t, i) not in was_read:
                was_read.append((t, i))
    nmeas = 0
    outstanding = 0
    interleave = rng.random() < 0.6  # build operations between compile and commit
    for _ in range(rng.randint(1, 5)):
        lv0 = [i for i, a in enumerate(alive) if a]
        if outstanding == 0 and lv0 and rng.random() < 0.25:
            # the SAME block (identical text: same operations, same template names) is built and
            # compiled again in every round, each time with new values
            names = []
            steps = []
            for _ in range(rng.randint(1, 4)):
                k = rng.choice(["rot", "rot", "rot", "gate", "measreg"] + (["gate2"] if len(lv0) >= 2 and not cfg["transp"] else []))
                if k == "gate":
                    steps.append({"k": "gate", "h": rng.choice(lv0), "g": rng.randrange(7)})
                elif k == "gate2":
                    a, b = rng.sample(lv0, 2)
                    steps.append({"k": "gate2", "h": a, "h2": b})
                elif k == "measreg":
                    # outcome into a register: no fresh array, the text stays the same
                    steps.append({"k": "meas", "h": rng.choice(lv0), "mode": "reg", "inplace": True})
                else:
                    if names and rng.random() < 0.2:
                        name = rng.choice(names)
                    elif rng.random() < 0.9:
                        name = pick_name(rng, tcount, names)
                        tcount += 1
                        names.append(name)
                    else:
                        name = None
                    n = {"t": name} if name else rng.randrange(256)
                    steps.append({"k": "rot", "h": rng.choice(lv0), "axis": rng.choice("XYZ"), "n": n,
                                  "d": rng.randrange(0, 8)})
            for _ in range(rng.randint(2, 3)):
                events.extend(dict(st) for st in steps)
                nmeas += sum(1 for st in steps if st["k"] == "meas")
                events.append({"k": "compile", "vals": {nm: rng.choice([0, 1, 255, 16, rng.randrange(256)]) for nm in names},
                               "same_block": True})
                events.append({"k": "commit"})
            continue
        if outstanding == 0 and lv0 and rng.random() < 0.3:
            # a re-usable block (only gates on live qubits), compiled once, instantiated per round
            names = []
            for _ in range(rng.randint(1, 4)):
                k = rng.choice(["rot", "rot", "rot", "gate"] + (["gate2"] if len(lv0) >= 2 and not cfg["transp"] else []))
                if k == "gate":
                    events.append({"k": "gate", "h": rng.choice(lv0), "g": rng.randrange(7)})
                elif k == "gate2":
                    a, b = rng.sample(lv0, 2)
                    events.append({"k": "gate2", "h": a, "h2": b})
                else:
                    if names and rng.random() < 0.2:
                        name = rng.choice(names)
                    elif rng.random() < 0.85:
                        name = pick_name(rng, tcount, names)
                        tcount += 1
                        names.append(name)
                    else:
                        name = None
                    n = {"t": name} if name else rng.randrange(256)
                    events.append({"k": "rot", "h": rng.choice(lv0), "axis": rng.choice("XYZ"), "n": n,
                                   "d": rng.randrange(0, 8)})

            def some_vals():
                return {nm: rng.choice([0, 1, 255, 16, rng.randrange(256)]) for nm in names}

            ev = {"k": "compile", "vals": some_vals(), "more": [some_vals() for _ in range(rng.randint(0, 3))],
                  "copy": rng.choice(["copy", "deepcopy"])}
            if not ev["more"] and rng.random() < 0.4:
                ev["copy"] = "self"
            if names and rng.random() < 0.5:
                keep = rng.sample(names, rng.randint(0, len(names) - 1))
                ev["partial"] = {nm: rng.randrange(256) for nm in keep}
                ev["partial_at"] = rng.randrange(1 + len(ev["more"]))
            events.append(ev)
            events.extend({"k": "commit"} for _ in range(1 + len(ev["more"])))
            continue
        pre = rng.random() < 0.65 or outstanding > 0
        vals = {} if pre else None
        regs_used = 0
        nbuilt = 0
        for _ in range(rng.randint(0 if not pre else 1, 7)):
            # commits of older subroutines may come at any point while the next block is built
            if outstanding and interleave and rng.random() < 0.25:
                events.append({"k": "commit"})
                outstanding -= 1
            lv = [i for i, a in enumerate(alive) if a]
            ch = ["array"]
            if len(lv) < limit:
                ch += ["new"] * 3
            if lv:
                ch += ["gate", "rot", "rot", "rot", "meas", "meas"]
            if len(lv) >= 2 and not cfg["transp"]:
                ch += ["gate2"]
            if lv:
                ch += ["loop", "loop"] + (["if", "if"] if arr_futs else [])
            if nregs < 3:
                ch += ["newreg"]
            if nregs:
                ch += ["radd", "radd"]
            if arr_futs:
                ch += ["fadd", "fadd"]
            k = rng.choice(ch)
            nbuilt += 1
            if k == "newreg":
                events.append({"k": "newreg", "init": rng.randrange(8)})
                nregs += 1
                continue
            if k == "radd":
                events.append({"k": "radd", "r": rng.randrange(nregs), "v": rng.randint(1, 5)})
                continue
            if k == "fadd":
                events.append({"k": "fadd", "f": rng.choice(arr_futs), "v": rng.randint(1, 5)})
                continue
            if k in ("loop", "if"):
                # gates and (templated) rotations inside a loop / a conditional block
                steps = []
                for _ in range(rng.randint(1, 3)):
                    if rng.random() < 0.3:
                        steps.append({"k": "gate", "h": rng.choice(lv), "g": rng.randrange(7)})
                        continue
                    if pre and rng.random() < 0.8:
                        if vals and rng.random() < 0.2:
                            name = rng.choice(sorted(vals))
                        else:
                            name = pick_name(rng, tcount, vals)
                            tcount += 1
                            vals[name] = rng.choice([0, 1, 255, 16, rng.randrange(256)])
                        n = {"t": name}
                    else:
                        n = rng.randrange(256)
                    steps.append({"k": "rot", "h": rng.choice(lv), "axis": rng.choice("XYZ"), "n": n,
                                  "d": rng.randrange(0, 8)})
                if k == "loop":
                    events.append({"k": "loop", "count": rng.randint(1, 3), "steps": steps})
                else:
                    events.append({"k": "if", "f": rng.choice(arr_futs), "v": rng.randrange(2), "steps": steps})
            elif k == "new":
                events.append({"k": "new"})
                alive.append(True)
            elif k == "gate":
                events.append({"k": "gate", "h": rng.choice(lv), "g": rng.randrange(7)})
            elif k == "rot":
                if pre and rng.random() < 0.75:
                    if vals and rng.random() < 0.2:
                        name = rng.choice(sorted(vals))
                    else:
                        name = pick_name(rng, tcount, vals)
                        tcount += 1
                        vals[name] = rng.choice([0, 1, 255, 16, rng.randrange(256)])
                    n = {"t": name}
                else:
                    n = rng.randrange(256)
                events.append({"k": "rot", "h": rng.choice(lv), "axis": rng.choice("XYZ"), "n": n,
                               "d": rng.randrange(0, 8)})
            elif k == "gate2":
                a, b = rng.sample(lv, 2)
                events.append({"k": "gate2", "h": a, "h2": b})
            elif k == "meas":
                h = rng.choice(lv)
                mode = rng.choice(["array", "array", "reg"])
                if mode == "reg":
                    regs_used += 1
                    if regs_used > 14:
                        mode = "array"
                ip = rng.random() < 0.25
                events.append({"k": "meas", "h": h, "mode": mode, "inplace": ip})
                if mode == "array":
                    arr_futs.append(nmeas)
                nmeas += 1
                if not ip:
                    alive[h] = False
            elif k == "array":
                events.append({"k": "array", "len": rng.randint(1, 3)})
        if pre:
            if nbuilt == 0:
                continue
            events.append({"k": "compile", "vals": vals})
            outstanding += 1
            if not interleave or rng.random() < 0.35:
                while outstanding:
                    events.append({"k": "commit"})
                    outstanding -= 1
                reads()
        else:
            events.append({"k": "flush"})
            reads()
    while outstanding:
        events.append({"k": "commit"})
        outstanding -= 1
    reads()
    return {"cfg": cfg, "events": events}
